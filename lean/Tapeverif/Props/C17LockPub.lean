import Tapeverif.Props.C17Locks
/-!
# C17 — the single-script adapter lock (`make_adapter_lock_pub`), executed

The deprecated one-script form: the witness pushes `t`, `sa`, `R`; the lock stores them in cache
variables, checks the adapter `(sa, R)` against the key and the tweak point, decrypts it with `t`
and checks the decrypted signature `RT ‖ s` (with the flag byte appended when the flags are not 00 —
repair F16). Executed symbolically here for the flags-00 form and the flagged form alike: an adapter
that fails the check ends the lock in the VERIFY error before anything is decrypted; one that passes
makes the lock end with exactly the C02 outcome of `RT ‖ s [‖ flag]` under the key.
-/
namespace TV.C17
open Instr Tools

variable (H : Hashes) (C : Curve) (cfg : Cfg)

/-- `OP_CONCAT` at the head of a tape -/
theorem run_concat (fr : Frame) (sh : Shared) (rest' : Bytes) (second first : Bytes) (st : List Bytes) (r : Res)
    (hrest : fr.rest = CONCAT ++ rest') (hcap : fr.len0 < fr.cap) (hr : sh.returned = false)
    (hs : sh.stack = second :: first :: st) (hsz : (first ++ second).length ≤ cfg.lim.maxItemSize) (hroom : st.length < cfg.lim.maxItems)
    (h : TSteps (instrTable H C cfg) cfg.lim { fr with rest := rest' } { sh with stack := (first ++ second) :: st } r) :
    TSteps (instrTable H C cfg) cfg.lim fr sh r := by
  refine run_instr fr _ sh _ 55 rest' r (by simpa [CONCAT, opc] using hrest) hcap hr ?_ h
  show Steps _ _ (opConcat .done) _ _ _
  unfold opConcat
  nstep Steps.pop second (first :: st) hs ?_
  nstep Steps.pop first st rfl ?_
  nstep Steps.push hsz (by simpa using hroom) ?_
  exact Steps.done _ _

/-- `OP_CHECK_ADAPTER_SIG` at the head of a tape, the point / scalar functions succeeding -/
theorem run_checkAdapterSig (fr : Frame) (sh : Shared) (rest' : Bytes) (X Tp m Rp sa : Bytes) (b : Bool) (st : List Bytes) (r : Res)
    (hrest : fr.rest = CHECK_ADAPTER_SIG ++ rest') (hcap : fr.len0 < fr.cap) (hr : sh.returned = false)
    (hs : sh.stack = X :: Tp :: m :: Rp :: sa :: st) (hc : adapterCheck H C X Tp m Rp sa = .ok b)
    (h1 : 1 ≤ cfg.lim.maxItemSize) (hroom : st.length < cfg.lim.maxItems)
    (h : TSteps (instrTable H C cfg) cfg.lim { fr with rest := rest' } { sh with stack := boolBytes b :: st } r) :
    TSteps (instrTable H C cfg) cfg.lim fr sh r := by
  refine run_instr fr _ sh _ 83 rest' r (by simpa [CHECK_ADAPTER_SIG, opc] using hrest) hcap hr ?_ h
  show Steps _ _ (opCheckAdapterSig H C .done) _ _ _
  refine checkAdapterSig_instruction H C cfg _ .done _ _ X Tp m Rp sa st _ hs hroom h1 ?_
  rw [hc]
  exact Steps.done _ _

/-- `OP_DECRYPT_ADAPTER_SIG` at the head of a tape -/
theorem run_decryptAdapterSig (fr : Frame) (sh : Shared) (rest' : Bytes) (t0 Rp sa t Tp RT s : Bytes) (st : List Bytes) (r : Res)
    (hrest : fr.rest = DECRYPT_ADAPTER_SIG ++ rest') (hcap : fr.len0 < fr.cap) (hr : sh.returned = false)
    (hs : sh.stack = t0 :: Rp :: sa :: st)
    (ht : Sodium.clampScalar t0 false = .ok t) (hT : Sodium.derivePoint C t = .ok Tp)
    (hRT : Sodium.aggregatePoints C [Rp, Tp] = .ok RT) (hsum : Sodium.scalarAdd sa t = .ok s)
    (hRTl : RT.length ≤ cfg.lim.maxItemSize) (hsl : s.length ≤ cfg.lim.maxItemSize) (hroom : st.length + 1 < cfg.lim.maxItems)
    (h : TSteps (instrTable H C cfg) cfg.lim { fr with rest := rest' }
          { sh with stack := s :: RT :: st, cache := decCache cfg sh.cache RT s } r) :
    TSteps (instrTable H C cfg) cfg.lim fr sh r := by
  refine run_instr fr _ sh _ 84 rest' r (by simpa [DECRYPT_ADAPTER_SIG, opc] using hrest) hcap hr ?_ h
  show Steps _ _ (opDecryptAdapterSig C cfg .done) _ _ _
  refine decryptAdapterSig_instruction C cfg _ .done _ _ t0 Rp sa t Tp RT s st _ hs ht hT hRT hsum hRTl hsl hroom ?_
  exact Steps.done _ _

/-- the three cache variables the lock writes, on top of the embedder's cache -/
def varCache (cache : List (CKey × CVal)) (Rp sa t0 : Bytes) : List (CKey × CVal) :=
  (CKey.byt (asciiBytes "t"), CVal.list [Atom.bytes t0]) ::
  (CKey.byt (asciiBytes "sa"), CVal.list [Atom.bytes sa]) ::
  (CKey.byt (asciiBytes "R"), CVal.list [Atom.bytes Rp]) :: cache

theorem message_varCache (flags : Nat) (cache : List (CKey × CVal)) (Rp sa t0 : Bytes) :
    SigPure.message flags (varCache cache Rp sa t0) = SigPure.message flags cache := by
  simp only [SigPure.message, varCache, msgFrom_cons_byt]

theorem checkSig_decCache (mx : Nat) (cache : List (CKey × CVal)) (RT s : Bytes) (allowed : Nat) (sig vkey : Bytes) :
    SigPure.checkSig H C mx (decCache cfg cache RT s) allowed sig vkey = SigPure.checkSig H C mx cache allowed sig vkey := by
  unfold decCache
  by_cases h7 : cfg.flag 7 = true <;> by_cases h9 : cfg.flag 9 = true <;>
    simp only [h7, h9, ↓reduceIte, Bool.false_eq_true, List.nil_append, List.cons_append, checkSig_cons_byt]

theorem checkSig_varCache (mx : Nat) (cache : List (CKey × CVal)) (Rp sa t0 : Bytes) (allowed : Nat) (sig vkey : Bytes) :
    SigPure.checkSig H C mx (varCache cache Rp sa t0) allowed sig vkey = SigPure.checkSig H C mx cache allowed sig vkey := by
  simp only [varCache, checkSig_cons_byt]

/-- the first half of the lock: store the three items, read `sa`, `R` back, build the message, push
    point and key, check the adapter, VERIFY. A failing adapter ends the lock here. -/
theorem adapterLockPub_rejects (hno : cfg.sigExts = []) (pk Tp Rp sa t0 m : Bytes) (flags : Nat) (st : List Bytes)
    (sh : Shared) (count : Nat)
    (hpk : pk.length = 32) (hT : Tp.length = 32) (hfl : flags < 256)
    (hs : sh.stack = Rp :: sa :: t0 :: st) (hr : sh.returned = false)
    (hR : Rp.length ≤ cfg.lim.maxItemSize) (hsa : sa.length ≤ cfg.lim.maxItemSize)
    (hm : SigPure.message flags sh.cache = .ok m) (hmsz : m.length ≤ cfg.lim.maxItemSize)
    (h32 : 32 ≤ cfg.lim.maxItemSize) (hroom : st.length + 5 ≤ cfg.lim.maxItems)
    (hc : adapterCheck H C pk Tp m Rp sa = .ok false) :
    TSteps (instrTable H C cfg) cfg.lim (topFrame (adapterLockPub pk Tp flags) count) sh
      (.err (.user .see) { sh with stack := st, cache := varCache sh.cache Rp sa t0 }) := by
  unfold topFrame adapterLockPub
  generalize hlen : (writeCache "R" 1 ++ _).length = len
  have hcap : len < len + 1 := by omega
  refine run_writeCache1 H C cfg _ sh _ (asciiBytes "R") Rp (sa :: t0 :: st) _ rfl (by decide) (by decide) hcap hr hs ?_
  refine run_writeCache1 H C cfg _ _ _ (asciiBytes "sa") sa (t0 :: st) _ rfl (by decide) (by decide) hcap hr rfl ?_
  refine run_writeCache1 H C cfg _ _ _ (asciiBytes "t") t0 st _ rfl (by decide) (by decide) hcap hr rfl ?_
  refine run_readCache1 H C cfg _ _ _ (asciiBytes "sa") sa _ rfl (by decide) (by decide) hcap hr
    (by simp [lookupC_byt_cons_ne, lookupC_byt_cons_eq, asciiBytes]) hsa (by simp; omega) ?_
  refine run_readCache1 H C cfg _ _ _ (asciiBytes "R") Rp _ rfl (by decide) (by decide) hcap hr
    (by simp [lookupC_byt_cons_ne, lookupC_byt_cons_eq, asciiBytes]) hR (by simp; omega) ?_
  refine run_getMessage H C cfg hno _ _ _ flags m _ rfl hfl hcap hr
    (by rw [← hm]; exact message_varCache flags sh.cache Rp sa t0) hmsz (by simp; omega) ?_
  refine run_pushB H C cfg _ _ Tp _ _ (by omega) (by omega) rfl hcap hr (by omega) (by simp; omega) ?_
  refine run_pushB H C cfg _ _ pk _ _ (by omega) (by omega) rfl hcap hr (by omega) (by simp; omega) ?_
  refine run_checkAdapterSig H C cfg _ _ _ pk Tp m Rp sa false st _ rfl hcap hr rfl hc (by omega) (by omega) ?_
  exact run_verify_false H C cfg _ _ _ (boolBytes false) st rfl hcap hr rfl (by decide)

/-- the lock's bytes up to and including the first CONCAT -/
def lockPubFront (pk Tp : Bytes) (flags : Nat) : Bytes :=
  writeCache "R" 1 ++ (writeCache "sa" 1 ++ (writeCache "t" 1 ++
  (readCache "sa" ++ (readCache "R" ++ (GET_MESSAGE flags ++ (pushB Tp ++ (pushB pk ++ (CHECK_ADAPTER_SIG ++ (opc VERIFY ++
  (readCache "sa" ++ (readCache "R" ++ (readCache "t" ++ (DECRYPT_ADAPTER_SIG ++ CONCAT)))))))))))))

theorem adapterLockPub_split (pk Tp : Bytes) (flags : Nat) :
    adapterLockPub pk Tp flags =
      lockPubFront pk Tp flags ++ ((if flags = 0 then [] else pushB [UInt8.ofNat flags] ++ CONCAT) ++ (pushB pk ++ CHECK_SIG flags)) := by
  simp only [adapterLockPub, lockPubFront, List.append_assoc]

set_option maxHeartbeats 1600000 in
/-- the front part with an adapter that passes: from any frame whose tape starts with it, the run
    continues behind the first CONCAT with the decrypted pair concatenated on the stack -/
theorem lockPubFront_run (hno : cfg.sigExts = []) (pk Tp Rp sa t0 m t Tq RT s tl : Bytes) (flags : Nat) (st : List Bytes)
    (fr : Frame) (sh : Shared) (r : Res)
    (hrest : fr.rest = lockPubFront pk Tp flags ++ tl) (hcap : fr.len0 < fr.cap)
    (hpk : pk.length = 32) (hT : Tp.length = 32) (hfl : flags < 256)
    (hs : sh.stack = Rp :: sa :: t0 :: st) (hr : sh.returned = false)
    (hR : Rp.length ≤ cfg.lim.maxItemSize) (hsa : sa.length ≤ cfg.lim.maxItemSize) (ht0 : t0.length ≤ cfg.lim.maxItemSize)
    (hm : SigPure.message flags sh.cache = .ok m) (hmsz : m.length ≤ cfg.lim.maxItemSize)
    (h32 : 32 ≤ cfg.lim.maxItemSize) (hroom : st.length + 5 ≤ cfg.lim.maxItems)
    (hc : adapterCheck H C pk Tp m Rp sa = .ok true)
    (ht : Sodium.clampScalar t0 false = .ok t) (hTq : Sodium.derivePoint C t = .ok Tq)
    (hRT : Sodium.aggregatePoints C [Rp, Tq] = .ok RT) (hsum : Sodium.scalarAdd sa t = .ok s)
    (hsig : (RT ++ s).length ≤ cfg.lim.maxItemSize)
    (h : TSteps (instrTable H C cfg) cfg.lim { fr with rest := tl }
          { sh with stack := (RT ++ s) :: st, cache := decCache cfg (varCache sh.cache Rp sa t0) RT s } r) :
    TSteps (instrTable H C cfg) cfg.lim fr sh r := by
  have hRTl : RT.length ≤ cfg.lim.maxItemSize := by simp at hsig; omega
  have hsl : s.length ≤ cfg.lim.maxItemSize := by simp at hsig; omega
  unfold lockPubFront at hrest
  simp only [List.append_assoc] at hrest
  refine run_writeCache1 H C cfg fr sh _ (asciiBytes "R") Rp (sa :: t0 :: st) _ hrest (by decide) (by decide) hcap hr hs ?_
  refine run_writeCache1 H C cfg _ _ _ (asciiBytes "sa") sa (t0 :: st) _ rfl (by decide) (by decide) hcap hr rfl ?_
  refine run_writeCache1 H C cfg _ _ _ (asciiBytes "t") t0 st _ rfl (by decide) (by decide) hcap hr rfl ?_
  refine run_readCache1 H C cfg _ _ _ (asciiBytes "sa") sa _ rfl (by decide) (by decide) hcap hr
    (by simp [lookupC_byt_cons_ne, lookupC_byt_cons_eq, asciiBytes]) hsa (by simp; omega) ?_
  refine run_readCache1 H C cfg _ _ _ (asciiBytes "R") Rp _ rfl (by decide) (by decide) hcap hr
    (by simp [lookupC_byt_cons_ne, lookupC_byt_cons_eq, asciiBytes]) hR (by simp; omega) ?_
  refine run_getMessage H C cfg hno _ _ _ flags m _ rfl hfl hcap hr
    (by rw [← hm]; exact message_varCache flags sh.cache Rp sa t0) hmsz (by simp; omega) ?_
  refine run_pushB H C cfg _ _ Tp _ _ (by omega) (by omega) rfl hcap hr (by omega) (by simp; omega) ?_
  refine run_pushB H C cfg _ _ pk _ _ (by omega) (by omega) rfl hcap hr (by omega) (by simp; omega) ?_
  refine run_checkAdapterSig H C cfg _ _ _ pk Tp m Rp sa true st _ rfl hcap hr rfl hc (by omega) (by omega) ?_
  refine run_verify_true H C cfg _ _ _ (boolBytes true) st _ rfl hcap hr rfl (by decide) ?_
  refine run_readCache1 H C cfg _ _ _ (asciiBytes "sa") sa _ rfl (by decide) (by decide) hcap hr
    (by simp [lookupC_byt_cons_ne, lookupC_byt_cons_eq, asciiBytes]) hsa (by simp; omega) ?_
  refine run_readCache1 H C cfg _ _ _ (asciiBytes "R") Rp _ rfl (by decide) (by decide) hcap hr
    (by simp [lookupC_byt_cons_ne, lookupC_byt_cons_eq, asciiBytes]) hR (by simp; omega) ?_
  refine run_readCache1 H C cfg _ _ _ (asciiBytes "t") t0 _ rfl (by decide) (by decide) hcap hr
    (by simp [lookupC_byt_cons_eq, asciiBytes]) ht0 (by simp; omega) ?_
  refine run_decryptAdapterSig H C cfg _ _ _ t0 Rp sa t Tq RT s st _ rfl hcap hr rfl ht hTq hRT hsum hRTl hsl (by omega) ?_
  refine run_concat H C cfg _ _ tl s RT st _ rfl hcap hr rfl hsig (by omega) ?_
  exact h

set_option maxHeartbeats 1600000 in
/-- **C17, the single-script adapter lock, an adapter that passes.** The lock ends with exactly the
    C02 outcome of the decrypted pair `RT ‖ s` — with the flag byte appended when the lock's flags
    are not 00 — under the key: true iff that is a signature by the key over the flag-selected
    sigfields. The group-level theorems say it is one whenever `t` is the scalar of `T`. -/
theorem adapterLockPub_accepts (hno : cfg.sigExts = []) (pk Tp Rp sa t0 m t Tq RT s : Bytes) (flags : Nat) (st : List Bytes)
    (sh : Shared) (count : Nat)
    (hpk : pk.length = 32) (hT : Tp.length = 32) (hfl : flags < 256)
    (hs : sh.stack = Rp :: sa :: t0 :: st) (hr : sh.returned = false)
    (hR : Rp.length ≤ cfg.lim.maxItemSize) (hsa : sa.length ≤ cfg.lim.maxItemSize) (ht0 : t0.length ≤ cfg.lim.maxItemSize)
    (hm : SigPure.message flags sh.cache = .ok m) (hmsz : m.length ≤ cfg.lim.maxItemSize)
    (h32 : 32 ≤ cfg.lim.maxItemSize) (hroom : st.length + 5 ≤ cfg.lim.maxItems)
    (hc : adapterCheck H C pk Tp m Rp sa = .ok true)
    (ht : Sodium.clampScalar t0 false = .ok t) (hTq : Sodium.derivePoint C t = .ok Tq)
    (hRT : Sodium.aggregatePoints C [Rp, Tq] = .ok RT) (hsum : Sodium.scalarAdd sa t = .ok s)
    (hsig : (RT ++ s).length + 1 ≤ cfg.lim.maxItemSize) :
    Ends (instrTable H C cfg) cfg.lim (topFrame (adapterLockPub pk Tp flags) count) sh
      (fun r => Res.summary r =
        (match SigPure.checkSig H C cfg.lim.maxItemSize sh.cache flags
                 (RT ++ s ++ (if flags = 0 then [] else [UInt8.ofNat flags])) pk with
         | .ok b => .ok (boolBytes b :: st)
         | .error e => .error (.user e))) := by
  rw [adapterLockPub_split]
  unfold topFrame
  generalize hlen : (lockPubFront pk Tp flags ++ _).length = len
  have hcap : len < len + 1 := by omega
  refine Ends.step (fun r h => lockPubFront_run H C cfg hno pk Tp Rp sa t0 m t Tq RT s _ flags st _ sh r rfl hcap hpk hT hfl hs hr hR hsa ht0 hm hmsz h32 hroom hc ht hTq hRT hsum (by omega) h) ?_
  dsimp only
  by_cases hf0 : flags = 0
  · simp only [hf0, ↓reduceIte, List.nil_append, List.append_nil]
    refine Ends.step (fun r h => run_pushB H C cfg _ _ pk _ r (by omega) (by omega) rfl hcap hr (by omega) (by simp; omega) h) ?_
    dsimp only
    have hlast := run_checksig_last H C cfg hno
      { rest := CHECK_SIG 0, count := count, fn := none, dict := 0, len0 := len, cap := len + 1 }
      { sh with stack := pk :: (RT ++ s) :: st, cache := decCache cfg (varCache sh.cache Rp sa t0) RT s }
      0 pk (RT ++ s) st rfl (by omega) hcap hr rfl (by omega) (by omega)
    refine ⟨_, hlast, ?_⟩
    dsimp only
    rw [checkSig_decCache, checkSig_varCache]
    cases SigPure.checkSig H C cfg.lim.maxItemSize sh.cache 0 (RT ++ s) pk <;> rfl
  · simp only [hf0, ↓reduceIte, List.append_assoc]
    have hfb : ([UInt8.ofNat flags] : Bytes).length = 1 := rfl
    refine Ends.step (fun r h => run_pushB H C cfg _ _ [UInt8.ofNat flags] _ r (by simp) (by simp) rfl hcap hr (by simp; omega) (by simp; omega) h) ?_
    dsimp only
    refine Ends.step (fun r h => run_concat H C cfg _ _ _ [UInt8.ofNat flags] (RT ++ s) st r rfl hcap hr rfl (by simp at hsig ⊢; omega) (by omega) h) ?_
    dsimp only
    refine Ends.step (fun r h => run_pushB H C cfg _ _ pk _ r (by omega) (by omega) rfl hcap hr (by omega) (by simp; omega) h) ?_
    dsimp only
    have hlast := run_checksig_last H C cfg hno
      { rest := CHECK_SIG flags, count := count, fn := none, dict := 0, len0 := len, cap := len + 1 }
      { sh with stack := pk :: (RT ++ s ++ [UInt8.ofNat flags]) :: st, cache := decCache cfg (varCache sh.cache Rp sa t0) RT s }
      flags pk (RT ++ s ++ [UInt8.ofNat flags]) st rfl hfl hcap hr rfl (by omega) (by omega)
    refine ⟨_, hlast, ?_⟩
    dsimp only
    rw [checkSig_decCache, checkSig_varCache, List.append_assoc]
    generalize SigPure.checkSig H C cfg.lim.maxItemSize sh.cache flags (RT ++ (s ++ [UInt8.ofNat flags])) pk = x
    cases x <;> rfl

end TV.C17
