import Tapeverif.Lemmas.SigRefine
/-! # C02 — signature instructions verify exactly the flag-selected message

`SigPure.checkSig` / `SigPure.message` are the specifications; `checkSig_instruction` ties them
to the VM's `Op` term by symbolic execution. `Hashes` / `Curve` are arbitrary. -/
namespace TV.C02

open Instr SigPure

variable (T : UInt8 → Op) (L : Limits) (H : Hashes) (C : Curve)

/-- C02.0 what the instruction does is what the specification says (for every op table, stack
    with room, cache): it pops key and signature and then either raises exactly the
    specification's error or pushes exactly the specification's Boolean. -/
theorem checkSig_instruction (allowed : Nat) (k : Op) (n : Nat) (fr : Frame) (sh : Shared)
    (vkey sig : Bytes) (st : List Bytes) (hs : sh.stack = vkey :: sig :: st)
    (h1 : 1 ≤ L.maxItemSize) (h2 : st.length < L.maxItems) :
    runOp T L (n + 13) (checkSigCore H C allowed k) fr sh =
      (match checkSig H C L.maxItemSize sh.cache allowed sig vkey with
       | .ok b => runOp T L n k fr { sh with stack := boolBytes b :: st }
       | .error e => .err (.user e) { sh with stack := st }) :=
  checkSigCore_refines T L H C allowed k n fr sh vkey sig st hs h1 h2

/-- the eight per-bit tests of the code are the mask test of the property, for all 256 × 256
    (flag, allowed) pairs — the whole finite table, evaluated by the kernel -/
theorem flagsAllowed_iff_mask : ∀ f < 256, ∀ a < 256,
    (flagsAllowed f a = true ↔ f &&& (a ^^^ 255) = 0) := by decide +kernel

/-- C02.2a a flag bit not permitted by the allowed-flags operand is an execution error — never
    true — whatever the key, signature and cache. -/
theorem checkSig_error_of_disallowed (mis : Nat) (cache : List (CKey × CVal)) (allowed : Nat)
    (sig vkey : Bytes) (hk : vkey.length = 32) (hs : sig.length = 65)
    (hf : flagsAllowed (sig.getLast?.getD 0).toNat allowed = false) :
    checkSig H C mis cache allowed sig vkey = .error .see := by
  unfold checkSig
  simp [hk, hs, hf]
  rfl

/-- C02.2b a key that is not 32 bytes or a signature that is not 64 / 65 bytes is an error. -/
theorem checkSig_error_of_bad_length (mis : Nat) (cache : List (CKey × CVal)) (allowed : Nat)
    (sig vkey : Bytes) (h : vkey.length ≠ 32 ∨ (sig.length ≠ 64 ∧ sig.length ≠ 65)) :
    checkSig H C mis cache allowed sig vkey = .error .value := by
  unfold checkSig
  rcases h with h | h
  · simp [h]; rfl
  · by_cases hk : vkey.length ≠ 32
    · simp [hk]; rfl
    · simp [hk, h]; rfl

/-- C02.3 otherwise the result is exactly the Ed25519 verification, under the supplied key, of
    the first 64 bytes of the signature over the flag-selected message. -/
theorem checkSig_true_iff (mis : Nat) (cache : List (CKey × CVal)) (allowed : Nat) (sig vkey m : Bytes)
    (hk : vkey.length = 32) (hs : sig.length = 64 ∨ sig.length = 65)
    (hf : flagsAllowed (if sig.length = 64 then 0 else (sig.getLast?.getD 0).toNat) allowed = true)
    (hm : message (if sig.length = 64 then 0 else (sig.getLast?.getD 0).toNat) cache = .ok m)
    (hfit : m.length ≤ mis) :
    checkSig H C mis cache allowed sig vkey = .ok (Sodium.verify H C vkey m (sig.take 64)) := by
  unfold checkSig
  have hs' : ¬ (sig.length ≠ 64 ∧ sig.length ≠ 65) := by omega
  simp only [hk, ne_eq, not_true_eq_false, ↓reduceIte, hs', hf, Bool.not_true, Bool.false_eq_true, hm]
  simp [bind, Except.bind, hfit]
  rfl

/-- C02.4 sign-then-check succeeds for every flag the checker allows, for any signature scheme
    whose verification accepts its own signatures (completeness — a *hypothesis* about the
    `Hashes`/`Curve` parameters, true of Ed25519) and produces 64-byte signatures / 32-byte keys. -/
theorem sign_then_check (mis : Nat) (cache : List (CKey × CVal)) (allowed flag : Nat) (seed m : Bytes)
    (hflag : flag < 256)
    (hcomplete : ∀ msg, Sodium.verify H C (Sodium.publicKey H C seed) msg (Sodium.sign H C seed msg) = true)
    (hlen : ∀ msg, (Sodium.sign H C seed msg).length = 64) (hpk : (Sodium.publicKey H C seed).length = 32)
    (hf : flagsAllowed flag allowed = true) (hm : message flag cache = .ok m) (hfit : m.length ≤ mis) :
    checkSig H C mis cache allowed
      (if flag ≠ 0 then Sodium.sign H C seed m ++ [UInt8.ofNat flag] else Sodium.sign H C seed m)
      (Sodium.publicKey H C seed) = .ok true := by
  by_cases h0 : flag = 0
  · subst h0
    simp only [ne_eq, not_true_eq_false, ↓reduceIte]
    rw [checkSig_true_iff H C mis cache allowed _ _ m hpk (Or.inl (hlen m)) (by simp [hlen, hf]) (by simp [hlen, hm]) hfit]
    rw [List.take_of_length_le (by simp [hlen])]
    simp [hcomplete]
  · simp only [ne_eq, h0, not_false_eq_true, ↓reduceIte]
    have hl : (Sodium.sign H C seed m ++ [UInt8.ofNat flag]).length = 65 := by simp [hlen]
    have hlast : ((Sodium.sign H C seed m ++ [UInt8.ofNat flag]).getLast?.getD 0).toNat = flag := by
      simp [UInt8.toNat_ofNat', Nat.mod_eq_of_lt hflag]
    rw [checkSig_true_iff H C mis cache allowed _ _ m hpk (Or.inr hl) (by rw [if_neg (by omega), hlast]; exact hf) (by rw [if_neg (by omega), hlast]; exact hm) hfit]
    rw [List.take_append_of_le_length (by simp [hlen]), List.take_of_length_le (by simp [hlen])]
    simp [hcomplete]

/-- C02.5a changes to excluded (or to absent-and-still-absent) fields are irrelevant: caches
    that agree on every sigfield whose flag bit is clear give the same message. -/
theorem message_excluded_irrelevant (flag : Nat) (c1 c2 : List (CKey × CVal))
    (h : ∀ i, flag / 2^(i-1) % 2 ≠ 1 → lookupC (sigfieldKey i) c1 = lookupC (sigfieldKey i) c2)
    (hp : ∀ i, (lookupC (sigfieldKey i) c1).isSome = (lookupC (sigfieldKey i) c2).isSome) :
    message flag c1 = message flag c2 := by
  unfold message
  suffices ∀ fuel i, msgFrom flag c1 fuel i = msgFrom flag c2 fuel i from this 8 1
  intro fuel
  induction fuel with
  | zero => intro i; rfl
  | succ f ih =>
    intro i
    simp only [msgFrom]
    by_cases hb : flag / 2^(i-1) % 2 = 1
    · have := hp i
      cases h1 : lookupC (sigfieldKey i) c1 <;> cases h2 : lookupC (sigfieldKey i) c2 <;>
        simp [h1, h2] at this <;> simp [hb, ih]
    · rw [h i hb]
      cases lookupC (sigfieldKey i) c2 with
      | none => exact ih _
      | some v => simp only [hb, ↓reduceIte, ih]

/-- Non-vacuity: flag 0x02 excludes sigfield2 and keeps sigfield1. -/
example : message 2 [(sigfieldKey 1, .atom (.bytes [1])), (sigfieldKey 2, .atom (.bytes [2]))] = .ok [1] := by
  rfl

end TV.C02
