import Tapeverif.Lemmas.Asm
import Tapeverif.Gen.Tables
/-! # C12 — decoding always terminates, moves forward, and is inverted by encoding -/
namespace TV.C12

open Asm

/-- C12.2 whatever `decodeOperands` reads, re-encoding gives back exactly the bytes it consumed,
    and the fields fit their layout (so the bytecode determines the instruction and vice versa). -/
theorem encode_decode_operands (c : UInt8) (b : Bytes) (fs : List Bytes) (r : Bytes)
    (h : decodeOperands c b = some (fs, r)) :
    encodeOperands c fs ++ r = b ∧ wellFormed ⟨c, fs⟩ = true := by
  unfold decodeOperands at h
  unfold encodeOperands wellFormed
  cases hk : kindOf c.toNat <;> simp only [hk] at h ⊢
  · -- none
    simp only [Option.some.injEq, Prod.mk.injEq] at h
    obtain ⟨rfl, rfl⟩ := h; simp
  · -- u1
    cases h1 : takeExact 1 b with
    | none => simp [h1] at h
    | some p =>
      obtain ⟨x, r1⟩ := p
      simp [h1] at h; obtain ⟨rfl, rfl⟩ := h
      obtain ⟨hb, hl⟩ := takeExact_spec h1
      simp [hb, hl]
  · -- sized1
    cases h1 : readSized 1 b with
    | none => simp [h1] at h
    | some p =>
      obtain ⟨v, r1⟩ := p
      simp [h1] at h; obtain ⟨rfl, rfl⟩ := h
      obtain ⟨hb, hl⟩ := readSized_spec h1
      simp [hb]; simpa using hl
  · -- sized2
    cases h1 : readSized 2 b with
    | none => simp [h1] at h
    | some p =>
      obtain ⟨v, r1⟩ := p
      simp [h1] at h; obtain ⟨rfl, rfl⟩ := h
      obtain ⟨hb, hl⟩ := readSized_spec h1
      simp [hb]; simpa using hl
  · -- writeCache
    cases h1 : readSized 1 b with
    | none => simp [h1] at h
    | some p =>
      obtain ⟨k, r1⟩ := p
      cases h2 : takeExact 1 r1 with
      | none => simp [h1, h2] at h
      | some q =>
        obtain ⟨n, r2⟩ := q
        simp [h1, h2] at h; obtain ⟨rfl, rfl⟩ := h
        obtain ⟨hb, hl⟩ := readSized_spec h1
        obtain ⟨hb2, hl2⟩ := takeExact_spec h2
        simp [hb, hb2, hl2]; simpa using hl
  · -- f4
    cases h1 : takeExact 4 b with
    | none => simp [h1] at h
    | some p =>
      obtain ⟨x, r1⟩ := p
      simp [h1] at h; obtain ⟨rfl, rfl⟩ := h
      obtain ⟨hb, hl⟩ := takeExact_spec h1
      simp [hb, hl]
  · -- swap
    cases h1 : takeExact 1 b with
    | none => simp [h1] at h
    | some p =>
      obtain ⟨x, r1⟩ := p
      cases h2 : takeExact 1 r1 with
      | none => simp [h1, h2] at h
      | some q =>
        obtain ⟨y, r2⟩ := q
        simp [h1, h2] at h; obtain ⟨rfl, rfl⟩ := h
        obtain ⟨hb, hl⟩ := takeExact_spec h1
        obtain ⟨hb2, hl2⟩ := takeExact_spec h2
        simp [hb, hb2, hl, hl2]
  · -- multisig
    cases h1 : takeExact 1 b with
    | none => simp [h1] at h
    | some p =>
      obtain ⟨x, r1⟩ := p
      cases h2 : takeExact 1 r1 with
      | none => simp [h1, h2] at h
      | some q =>
        obtain ⟨y, r2⟩ := q
        cases h3 : takeExact 1 r2 with
        | none => simp [h1, h2, h3] at h
        | some q3 =>
          obtain ⟨z, r3⟩ := q3
          simp [h1, h2, h3] at h; obtain ⟨rfl, rfl⟩ := h
          obtain ⟨hb, hl⟩ := takeExact_spec h1
          obtain ⟨hb2, hl2⟩ := takeExact_spec h2
          obtain ⟨hb3, hl3⟩ := takeExact_spec h3
          simp [hb, hb2, hb3, hl, hl2, hl3]
  · -- bytes32
    cases h1 : takeExact 32 b with
    | none => simp [h1] at h
    | some p =>
      obtain ⟨x, r1⟩ := p
      simp [h1] at h; obtain ⟨rfl, rfl⟩ := h
      obtain ⟨hb, hl⟩ := takeExact_spec h1
      simp [hb, hl]
  · -- def
    cases h1 : takeExact 1 b with
    | none => simp [h1] at h
    | some p =>
      obtain ⟨hd, r1⟩ := p
      cases h2 : readSized 2 r1 with
      | none => simp [h1, h2] at h
      | some q =>
        obtain ⟨body, r2⟩ := q
        simp [h1, h2] at h; obtain ⟨rfl, rfl⟩ := h
        obtain ⟨hb, hl⟩ := takeExact_spec h1
        obtain ⟨hb2, hl2⟩ := readSized_spec h2
        simp [hb, hb2, hl]; simpa using hl2
  · -- body1
    cases h1 : readSized 2 b with
    | none => simp [h1] at h
    | some p =>
      obtain ⟨v, r1⟩ := p
      simp [h1] at h; obtain ⟨rfl, rfl⟩ := h
      obtain ⟨hb, hl⟩ := readSized_spec h1
      simp [hb]; simpa using hl
  · -- body2
    cases h1 : readSized 2 b with
    | none => simp [h1] at h
    | some p =>
      obtain ⟨b1, r1⟩ := p
      cases h2 : readSized 2 r1 with
      | none => simp [h1, h2] at h
      | some q =>
        obtain ⟨b2, r2⟩ := q
        simp [h1, h2] at h; obtain ⟨rfl, rfl⟩ := h
        obtain ⟨hb, hl⟩ := readSized_spec h1
        obtain ⟨hb2, hl2⟩ := readSized_spec h2
        simp [hb, hb2]
        exact ⟨by simpa using hl, by simpa using hl2⟩

theorem encode_decode_next (b : Bytes) (i : Instr) (r : Bytes) (h : decodeNext b = some (i, r)) :
    encodeInstr i ++ r = b ∧ wellFormed i = true := by
  cases b with
  | nil => simp [decodeNext] at h
  | cons c t =>
    simp only [decodeNext, Option.map_eq_some_iff] at h
    obtain ⟨⟨fs, r'⟩, hd, heq⟩ := h
    simp only [Prod.mk.injEq] at heq
    obtain ⟨rfl, rfl⟩ := heq
    obtain ⟨h1, h2⟩ := encode_decode_operands c t fs r' hd
    exact ⟨by simp [encodeInstr, h1], h2⟩

/-- C12.1 the decoder never reads backwards and always makes progress: what is left after one
    instruction is a proper suffix of the input. -/
theorem decodeNext_progress (b : Bytes) (i : Instr) (r : Bytes) (h : decodeNext b = some (i, r)) :
    r.length < b.length ∧ ∃ pre, b = pre ++ r := by
  obtain ⟨h1, _⟩ := encode_decode_next b i r h
  refine ⟨?_, encodeInstr i, h1.symm⟩
  rw [← h1]; simp [encodeInstr]; omega

/-- C12.2 for every byte string that decodes, re-encoding the decoded sequence reproduces the
    identical bytes (all well-formed bytecode, not only compiler output). -/
theorem encode_decode_seq : ∀ (fuel : Nat) (b : Bytes) (is : List Instr),
    decodeSeq fuel b = some is → encodeSeq is = b ∧ ∀ i ∈ is, wellFormed i = true := by
  intro fuel
  induction fuel with
  | zero =>
    intro b is h
    cases b with
    | nil => simp [decodeSeq] at h; subst h; simp [encodeSeq]
    | cons c t => simp [decodeSeq] at h
  | succ n ih =>
    intro b is h
    cases b with
    | nil => simp [decodeSeq] at h; subst h; simp [encodeSeq]
    | cons c t =>
      simp only [decodeSeq] at h
      cases hd : decodeNext (c :: t) with
      | none => simp [hd] at h
      | some p =>
        obtain ⟨i, r⟩ := p
        cases hr : decodeSeq n r with
        | none => simp [hd, hr] at h
        | some rest =>
          simp [hd, hr] at h
          subst h
          obtain ⟨h1, h2⟩ := encode_decode_next _ i r hd
          obtain ⟨h3, h4⟩ := ih r rest hr
          refine ⟨?_, ?_⟩
          · simp only [encodeSeq, List.flatMap_cons] at h3 ⊢
            rw [h3, h1]
          · intro j hj
            rcases List.mem_cons.mp hj with rfl | hj
            · exact h2
            · exact h4 j hj

/-- table obligation: for every assigned opcode, the name, and the operand class measured on the
    implementation's decompiler (bytes consumed on two probe patterns + line shape), equal the
    model's (regenerated from /repo on this run) -/
def lookupS (k : String) (l : List (String × String)) : Option String := (l.find? (·.1 = k)).map (·.2)

theorem decompiler_classes_match :
    Gen.opcodes.all (fun (c, n) => opName c = n ∧ lookupS n Gen.decompilerClass = some (kindOf c).name) = true := by
  decide +kernel

/-- Non-vacuity: a nested program decodes and re-encodes. -/
example : (decodeAll [43, 0, 2, 1, 48, 0]).map encodeSeq = some [43, 0, 2, 1, 48, 0] := by decide

end TV.C12
