namespace TV.C12
end TV.C12
