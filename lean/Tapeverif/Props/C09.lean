import Tapeverif.Lemmas.Exec
import Tapeverif.Model.Auth
/-! # C09 — embedder configuration applies uniformly at every nesting level

In the model the configuration (`Cfg`: flags, thresholds, plugins, contracts, limits) is a
read-only parameter closed over by the op table; the interpreter hands the *same* table and
limits to every nested run (IF / ELSE / TRY / EXCEPT / LOOP bodies, called functions,
evaluated scripts), and `Shared`/`Frame` contain no configuration. Uniformity is therefore
structural; what is stated here is (i) that structure, as equations a reader can check,
(ii) the exact behaviour of the two flag instructions (known finding K2), and (iii) that the
signature-extension plugins run exactly once, first, in every signature-related instruction. -/
namespace TV.C09

open Instr

variable (H : Hashes) (C : Curve) (cfg : Cfg)

/-- (i) every nested run uses the table and limits of the top-level run: the body of an IF /
    ELSE / TRY is run by the very same `runTape T L`. -/
theorem nested_body_uses_same_table (T : UInt8 → Op) (L : Limits) (n : Nat) (body : Bytes) (k : Op)
    (fr : Frame) (sh : Shared) :
    runOp T L (n+1) (.sub .inline body k) fr sh =
      (match runTape T L n { rest := body, count := getCount fr sh, fn := none, dict := (copyDict sh fr.dict).1,
                             len0 := body.length, cap := fr.len0 } (copyDict sh fr.dict).2 with
       | .err e sh' => .err e sh'
       | .ok _ sh' => if sh'.returned then .ok (endFrame fr) sh' else runOp T L n k fr sh') := by
  simp only [runOp]
  rfl

/-- (ii) K2: `OP_SET_FLAG` never sets anything — with its operands present it always ends in a
    script-execution error (the bytes operand is compared with int / str keys). -/
theorem setFlag_always_errors (T : UInt8 → Op) (L : Limits) (n : Nat) (k : Op) (fr : Frame) (sh : Shared)
    (len : UInt8) (rest : Bytes) (hr : fr.rest = len :: rest) (hl : len.toNat ≤ rest.length) :
    runOp T L (n+3) (opSetFlag k) fr sh = .err (.user .see) sh := by
  unfold opSetFlag readU1
  rw [runOp_read T L _ 1 _ fr sh (by simp [hr])]
  simp only [hr, List.take_succ_cons, List.take_zero, List.drop_succ_cons, List.drop_zero]
  rw [runOp_read T L _ _ _ _ sh (by simp [natOfBytesBE]; exact hl)]
  exact runOp_fail T L n _ _ _

/-- (ii) K2: `OP_UNSET_FLAG` consumes its operands and changes nothing — no flag is unset. -/
theorem unsetFlag_is_noop (T : UInt8 → Op) (L : Limits) (n : Nat) (k : Op) (fr : Frame) (sh : Shared)
    (len : UInt8) (rest : Bytes) (hr : fr.rest = len :: rest) (hl : len.toNat ≤ rest.length) :
    runOp T L (n+2) (opUnsetFlag k) fr sh =
      runOp T L n k { fr with rest := rest.drop len.toNat } sh := by
  unfold opUnsetFlag readU1
  rw [runOp_read T L _ 1 _ fr sh (by simp [hr])]
  simp only [hr, List.take_succ_cons, List.take_zero, List.drop_succ_cons, List.drop_zero]
  rw [runOp_read T L _ _ _ _ sh (by simp [natOfBytesBE]; exact hl)]
  simp [natOfBytesBE]

/-- (iii) the signature-extension prelude of a configuration whose plugins only log: one log
    entry per installed plugin, in order, then the instruction proper. -/
def logTags : List SigExt → List Nat
  | [] => []
  | .log t :: r => t :: logTags r
  | .raise :: _ => []

def allLog : List SigExt → Bool
  | [] => true
  | .log _ :: r => allLog r
  | .raise :: _ => false

theorem runSigExts_logs (T : UInt8 → Op) (L : Limits) : ∀ (exts : List SigExt) (n : Nat) (k : Op)
    (fr : Frame) (sh : Shared), allLog exts = true →
    runOp T L (n + exts.length) (runSigExts exts k) fr sh =
      runOp T L n k fr { sh with plog := (logTags exts).reverse ++ sh.plog } := by
  intro exts
  induction exts with
  | nil => intro n k fr sh _; simp [runSigExts, logTags]
  | cons e r ih =>
    intro n k fr sh h
    cases e with
    | raise => simp [allLog] at h
    | log t =>
      simp only [runSigExts, List.length_cons]
      rw [show n + (r.length + 1) = (n + r.length) + 1 by omega]
      simp only [runOp]
      rw [ih n k fr _ (by simpa [allLog] using h)]
      simp [logTags, List.append_assoc]

/-- every signature-related instruction starts with exactly that prelude (CHECK_TEMPLATE when
    flag 10 is on, its default) -/
theorem sig_instructions_run_extensions_first (k : Op) :
    opGetMessage cfg k = sigExt cfg (readU1 fun flag => getMessageCore flag k) ∧
    opCheckSig H C cfg k = sigExt cfg (readU1 fun allowed => checkSigCore H C allowed k) ∧
    opCheckSigVerify H C cfg k = sigExt cfg (readU1 fun allowed => checkSigCore H C allowed (opVerify k)) ∧
    (∃ body, opCheckMultisig H C cfg k = sigExt cfg body) ∧
    (∃ body, opSign H C cfg k = sigExt cfg body) ∧
    (cfg.flag10 = true → ∃ body, opCheckTemplate cfg k = sigExt cfg body) := by
  refine ⟨rfl, rfl, rfl, ⟨_, rfl⟩, ⟨_, rfl⟩, ?_⟩
  intro h
  unfold opCheckTemplate
  simp only [h, ↓reduceIte]
  exact ⟨_, rfl⟩

end TV.C09
