import Tapeverif.Props.C13
import Tapeverif.Lemmas.RunCall
/-!
# C13 — graftroot lock, the surrogate path that accepts

`Props/C13.lean` shows that a surrogate whose signature the lock's key did not make is never
evaluated. Here: a surrogate that *is* signed by the lock's key is evaluated, and the lock's
outcome (final stack, or error) is exactly the surrogate script's own outcome on the remaining
stack.
-/
namespace TV.C13
open Instr Tools

variable (H : Hashes) (C : Curve) (cfg : Cfg)

theorem summary_wrapEval (er : Bool) (g : Frame) (r : Res) : Res.summary (wrapEval er g r) = Res.summary r := by
  cases r with
  | err e s => rfl
  | ok f s => simp only [wrapEval]; split <;> rfl

/-- the state in which the surrogate is evaluated: the witness-left stack below the three
    graftroot items, and the lock's key in cache slot `k` -/
def graftState (sh : Shared) (pk : Bytes) (st : List Bytes) : Shared :=
  { (copyDict { sh with stack := st, cache := (CKey.byt (asciiBytes "k"), CVal.list [Atom.bytes pk]) :: sh.cache } 0).2 with stack := st }

/-- `OP_EVAL` as the last instruction of a tape: the outcome (stack or error) is the evaluated
    script's own -/
theorem ends_eval_last (hev : cfg.disallowEval = false) (frE : Frame) (shE : Shared) (script : Bytes) (st : List Bytes) (rL : Res)
    (hrest : frE.rest = EVAL) (hcap : frE.len0 < frE.cap) (hr : shE.returned = false)
    (hs : shE.stack = script :: st) (hne : script ≠ []) (hc : getCount frE shE < cfg.lim.callLimit)
    (hb : TSteps (instrTable H C cfg) cfg.lim (evalFrame script (getCount frE shE) (copyDict { shE with stack := st } frE.dict).1)
            (copyDict { shE with stack := st } frE.dict).2 rL) :
    Ends (instrTable H C cfg) cfg.lim frE shE (fun r => Res.summary r = Res.summary rL) :=
  ⟨wrapEval cfg.evalReturn { frE with rest := [] } rL,
   tape_single frE shE 45 [] { frE with rest := [] } rfl cfg.evalReturn rL (by simpa [EVAL, opc] using hrest) hcap hr
     (eval_done cfg hev _ { frE with rest := [] } shE script st rL hs hne hc hb),
   summary_wrapEval _ _ _⟩

set_option maxHeartbeats 1600000 in
/-- **C13, graftroot lock, a surrogate signed by the lock's key.** With a true selector on top
    of (surrogate script, signature): if the 64-byte signature verifies under the lock's key over
    the surrogate's bytes, the surrogate is evaluated on the remaining stack and the lock ends with
    exactly the surrogate's own outcome — its final stack, or its error. -/
theorem graftrootLock_surrogate_accepts (hev : cfg.disallowEval = false)
    (pk c script ssig : Bytes) (flags : Nat) (st : List Bytes) (sh : Shared) (count : Nat) (rL : Res)
    (hpk : pk.length = 32) (hc : truthy c = true) (hsl : ssig.length = 64)
    (hs : sh.stack = c :: script :: ssig :: st) (hr : sh.returned = false)
    (hscr : script.length ≤ cfg.lim.maxItemSize) (hne : script ≠ [])
    (hsz : 64 ≤ cfg.lim.maxItemSize) (hroom : st.length + 5 ≤ cfg.lim.maxItems) (hcnt : count < cfg.lim.callLimit)
    (hgood : Sodium.verify H C pk script ssig = true)
    (hL : TSteps (instrTable H C cfg) cfg.lim
            (evalFrame script count (copyDict (graftState sh pk st) sh.dicts.length).1)
            (copyDict (graftState sh pk st) sh.dicts.length).2 rL) :
    Ends (instrTable H C cfg) cfg.lim (topFrame (graftrootLock pk flags) count) sh
      (fun r => Res.summary r = Res.summary rL) := by
  rw [graftrootLock_bytes]
  unfold topFrame
  generalize hlen : (pushB pk ++ (writeCache "k" 1 ++ ifElse (graftA flags) (graftB flags))).length = len
  have hcap : len < len + 1 := by omega
  have hla : (graftA flags).length = 10 := by unfold graftA; decide
  have hlb : (graftB flags).length = 5 := by simp [graftB, readCache, CHECK_SIG, opc]; decide
  have hlen' : 15 < len := by
    rw [← hlen]; simp [ifElse, hla, hlb, opc]; omega
  refine Ends.step (fun r h => run_pushB H C cfg _ sh pk _ r (by omega) (by omega) rfl hcap hr (by omega) (by rw [hs]; simp; omega) h) ?_
  dsimp only
  refine Ends.step (fun r h => run_writeCache1 H C cfg _ _ _ (asciiBytes "k") pk sh.stack r rfl (by decide) (by decide) hcap hr rfl h) ?_
  dsimp only
  have hA : graftA flags = DUP ++ (SWAP 1 2 ++ (readCache "k" ++ (CSS ++ (opc VERIFY ++ EVAL)))) := rfl
  have inner : Ends (instrTable H C cfg) cfg.lim
      (inlineFrame (if truthy c then graftA flags else graftB flags)
        { rest := [], count := count, fn := none, dict := 0, len0 := len, cap := len + 1 }
        { sh with stack := script :: ssig :: st, cache := (CKey.byt (asciiBytes "k"), CVal.list [Atom.bytes pk]) :: sh.cache })
      (copyDict { sh with stack := script :: ssig :: st, cache := (CKey.byt (asciiBytes "k"), CVal.list [Atom.bytes pk]) :: sh.cache } 0).2
      (fun r => Res.summary r = Res.summary rL) := by
    rw [hc]
    simp only [↓reduceIte]
    refine Ends.step (fun r h => run_dup H C cfg _ _ (SWAP 1 2 ++ (readCache "k" ++ (CSS ++ (opc VERIFY ++ EVAL)))) script (ssig :: st) r (by simp [inlineFrame, hA])
      (by simp [inlineFrame, hla]; omega) (by simp [copyDict, hr]) (by simp [copyDict]) hscr (by simp; omega) h) ?_
    try dsimp only
    refine Ends.step (fun r h => run_swap12 H C cfg _ _ (readCache "k" ++ (CSS ++ (opc VERIFY ++ EVAL))) script script ssig st r rfl (by simp [inlineFrame, hla]; omega) (by simp [copyDict, hr]) rfl hscr hscr (by omega) (by omega) h) ?_
    try dsimp only
    refine Ends.step (fun r h => run_readCache1 H C cfg _ _ (CSS ++ (opc VERIFY ++ EVAL)) (asciiBytes "k") pk r rfl (by decide) (by decide)
      (by simp [inlineFrame, hla]; omega) (by simp [copyDict, hr]) (by simp [copyDict, lookupC_byt_cons_eq]) (by omega) (by simp; omega) h) ?_
    try dsimp only
    refine Ends.step (fun r h => run_css H C cfg _ _ (opc VERIFY ++ EVAL) pk script ssig (script :: st) r rfl (by simp [inlineFrame, hla]; omega) (by simp [copyDict, hr]) rfl hpk hsl (by omega) (by simp; omega) h) ?_
    try dsimp only
    refine Ends.step (fun r h => run_verify_true H C cfg _ _ EVAL (boolBytes (Sodium.verify H C pk script ssig)) (script :: st) r rfl
      (by simp [inlineFrame, hla]; omega) (by simp [copyDict, hr]) rfl (by rw [hgood]; decide) h) ?_
    try dsimp only
    refine ends_eval_last H C cfg hev _ _ script st rL rfl (by simp [inlineFrame, hla]; omega) (by simp [copyDict, hr]) rfl hne
      (by simpa [getCount, inlineFrame] using hcnt) ?_
    simpa [getCount, inlineFrame, graftState, copyDict] using hL
  obtain ⟨rB, hB, hP⟩ := inner
  refine ⟨_, run_ifelse_last H C cfg _ _ (graftA flags) (graftB flags) c (script :: ssig :: st) rB rfl (by omega) (by omega) hcap hr (by rw [hs]) hB, ?_⟩
  dsimp only
  rw [summary_wrapInline]
  exact hP

end TV.C13
