import Tapeverif.Props.C14
import Tapeverif.Lemmas.RunCall
/-!
# C14 — the delegation-chain lock, for chains of every length

`Props/C14.lean` proves what one activation of the lock's recursive function does
(`chainLevel_final`, `chainLevel_delegates`). Here the levels are composed through `OP_DEF` /
`OP_CALL` by induction on the list of certificates: the whole lock, on the stack the chain witness
leaves, ends exactly as `chainSpec` says — every certificate inside its window and signed by the
key the previous one delegated to (the first by the root), and the final signature C02-valid under
the last delegate key.
-/
namespace TV.C14
open Instr Tools

variable (H : Hashes) (C : Curve)

/-- one link as the lock sees it: the certificate's fields and the item that follows it on the
    stack (`true` / `false` in the builder's witness) -/
structure Level where
  dk : Bytes
  b4 : Bytes
  e4 : Bytes
  m : UInt8
  csig : Bytes
  marker : Bytes

def Level.cert (l : Level) : Bytes := l.dk ++ l.b4 ++ l.e4 ++ [l.m] ++ l.csig

def Level.wf (cfg : Cfg) (l : Level) : Prop :=
  l.dk.length = 32 ∧ l.b4.length = 4 ∧ l.e4.length = 4 ∧ l.csig.length = 64 ∧ l.marker.length ≤ cfg.lim.maxItemSize

/-- what the links occupy on the stack, below the authorizing key and above `tail` -/
def chainStack : List Level → List Bytes → List Bytes
  | [], tail => tail
  | l :: ls, tail => l.cert :: l.marker :: chainStack ls tail

theorem chainStack_length (ls : List Level) (tail : List Bytes) :
    (chainStack ls tail).length = 2 * ls.length + tail.length := by
  induction ls with
  | nil => simp [chainStack]
  | cons l ls ih => simp [chainStack, ih]; omega

/-- the lock's own decision at each link: continue (marker AND may-delegate byte is true) on every
    link but the last -/
def markersOk : List Level → Prop
  | [] => False
  | [l] => truthy (andBytes [l.m] l.marker) = false
  | l :: l2 :: ls => truthy (andBytes [l.m] l.marker) = true ∧ markersOk (l2 :: ls)

/-- **the specification of a chain**: every certificate passes `levelChecks` under the key that
    authorizes it — the first under `auth`, each later one under the previous certificate's
    delegate key — and then the outcome is the C02 specification of the final signature under the
    last delegate key; the first certificate that does not pass ends the run in an error. -/
def chainSpec (cfg : Cfg) (cache : List (CKey × CVal)) (flags : Nat) (t thr : Int) (sig : Bytes) (st : List Bytes) :
    Bytes → List Level → Except Err (List Bytes)
  | _, [] => .error (.user .see)
  | auth, [l] =>
      if levelChecks H C cfg auth l.dk l.b4 l.e4 l.csig l.m t thr then
        (match SigPure.checkSig H C cfg.lim.maxItemSize cache flags sig l.dk with
         | .ok b => .ok (boolBytes b :: st)
         | .error e => .error (.user e))
      else .error (.user .see)
  | auth, l :: l2 :: ls =>
      if levelChecks H C cfg auth l.dk l.b4 l.e4 l.csig l.m t thr then chainSpec cfg cache flags t thr sig st l.dk (l2 :: ls)
      else .error (.user .see)

theorem chainSpec_levelCache (cfg : Cfg) (cache : List (CKey × CVal)) (flags : Nat) (t thr : Int) (sig : Bytes) (st : List Bytes)
    (a d b e s : Bytes) (m : UInt8) : ∀ (ls : List Level) (auth : Bytes),
    chainSpec H C cfg (levelCache cache a d b e s m) flags t thr sig st auth ls = chainSpec H C cfg cache flags t thr sig st auth ls := by
  intro ls
  induction ls with
  | nil => intro auth; rfl
  | cons l ls ih =>
    intro auth
    cases ls with
    | nil => simp only [chainSpec, levelCache_checkSig]
    | cons l2 ls' => simp only [chainSpec, ih]

/-- the chain accepts only if every link passes (soundness, read off the specification) -/
def allLinks (cfg : Cfg) (t thr : Int) : Bytes → List Level → Prop
  | _, [] => True
  | auth, l :: ls => levelChecks H C cfg auth l.dk l.b4 l.e4 l.csig l.m t thr ∧ allLinks cfg t thr l.dk ls

def lastKey : Bytes → List Level → Bytes
  | auth, [] => auth
  | _, l :: ls => lastKey l.dk ls

theorem chainSpec_ok_iff (cfg : Cfg) (cache : List (CKey × CVal)) (flags : Nat) (t thr : Int) (sig : Bytes) (st : List Bytes) (out : List Bytes) :
    ∀ (ls : List Level) (auth : Bytes), ls ≠ [] →
    (chainSpec H C cfg cache flags t thr sig st auth ls = .ok out ↔
      allLinks H C cfg t thr auth ls ∧
      ∃ b, SigPure.checkSig H C cfg.lim.maxItemSize cache flags sig (lastKey auth ls) = .ok b ∧ out = boolBytes b :: st) := by
  intro ls
  induction ls with
  | nil => intro auth h; exact absurd rfl h
  | cons l ls ih =>
    intro auth _
    cases ls with
    | nil =>
      simp only [chainSpec, allLinks, lastKey, and_true]
      by_cases hc : levelChecks H C cfg auth l.dk l.b4 l.e4 l.csig l.m t thr
      · simp only [hc, ↓reduceIte, true_and]
        cases hs : SigPure.checkSig H C cfg.lim.maxItemSize cache flags sig l.dk with
        | ok b => simp [eq_comm]
        | error e => simp
      · simp [hc]
    | cons l2 ls' =>
      have := ih l.dk (by simp)
      simp only [chainSpec, allLinks, lastKey] at this ⊢
      by_cases hc : levelChecks H C cfg auth l.dk l.b4 l.e4 l.csig l.m t thr
      · simp only [hc, ↓reduceIte, true_and]; exact this
      · simp [hc]

/-! ### state bookkeeping around a call -/

theorem setFnCount_getD (sh : Shared) (F c : Nat) (hF : F < sh.fns.length) :
    (setFnCount sh F c).fns.getD F default = { sh.fns.getD F default with count := c } := by
  simp [setFnCount, List.getD_eq_getElem?_getD, hF]

theorem getD_append_lt {α : Type} (l : List α) (x d : α) (i : Nat) (h : i < l.length) : (l ++ [x]).getD i d = l.getD i d := by
  simp [List.getD_eq_getElem?_getD, List.getElem?_append_left h]

theorem getD_append_len {α : Type} (l : List α) (x d : α) : (l ++ [x]).getD l.length d = x := by
  simp [List.getD_eq_getElem?_getD]

theorem chainBody_len (flags : Nat) : 6 ≤ (chainDecide flags).length ∧ (chainDecide flags).length ≤ (chainBodySeq flags).length := by
  constructor
  · simp [chainDecide, ifElse, readCache, opc]; omega
  · unfold chainBodySeq
    simp only [List.length_append]
    omega

set_option maxHeartbeats 1600000 in
/-- **C14, chains of every length, from the call site.** In any frame that is not itself a
    function activation and is about to execute `call d0`, with function 0 bound — in that frame's
    definition table and in the table the function was defined in — to a function object whose body
    is the chain lock's body: from the stack `auth :: cert₁ :: marker₁ :: … :: certₙ :: markerₙ ::
    sig :: st` the run ends exactly as `chainSpec` says. Resource hypotheses: `n` more calls fit in
    the call budget, the stack has five free slots, items of 105 bytes are allowed. -/
theorem chain_call (cfg : Cfg) (hno : cfg.sigExts = []) (flags : Nat) (hfl : flags < 256) (F d0 : Nat) (t thr : Int)
    (hthr : cfg.tsThreshold = some thr) (hsz : 105 ≤ cfg.lim.maxItemSize) (sig : Bytes) (st : List Bytes) :
    ∀ (ls : List Level) (auth : Bytes) (frS : Frame) (shS : Shared),
    ls ≠ [] → markersOk ls → (∀ l ∈ ls, l.wf cfg) → auth.length = 32 →
    frS.rest = CALL 0 → frS.fn = none → frS.len0 < frS.cap →
    lookupDef 0 (shS.dicts.getD frS.dict []) = some F →
    F < shS.fns.length → (shS.fns.getD F default).body = chainBodySeq flags → (shS.fns.getD F default).dict = d0 →
    d0 < shS.dicts.length → lookupDef 0 (shS.dicts.getD d0 []) = some F →
    frS.count + ls.length ≤ cfg.lim.callLimit →
    shS.stack = auth :: chainStack ls (sig :: st) → shS.returned = false →
    lookupC C16.tsKey shS.cache = some (.atom (.int t)) →
    (chainStack ls (sig :: st)).length + 5 ≤ cfg.lim.maxItems →
    Ends (instrTable H C cfg) cfg.lim frS shS
      (fun r => Res.summary r = chainSpec H C cfg shS.cache flags t thr sig st auth ls) := by
  intro ls
  induction ls with
  | nil => intro _ _ _ h; exact absurd rfl h
  | cons l ls ih =>
    intro auth frS shS _ hmk hwf hauth hrest hfn hcap hlk hF hbody hdict hd0 hlk0 hcount hs hr ht hroom
    obtain ⟨hdk, hb4, he4, hcs, hml⟩ := hwf l (by simp)
    have hlen := chainBody_len flags
    -- the activation of function F the call creates
    have hfrB : (callFrame (shS.fns.getD F default) F frS.count).rest = chainBodySeq flags := hbody
    have hcapB : (callFrame (shS.fns.getD F default) F frS.count).len0 < (callFrame (shS.fns.getD F default) F frS.count).cap := by
      simp [callFrame]
    have hlenB : (chainBodySeq flags).length ≤ (callFrame (shS.fns.getD F default) F frS.count).len0 := by
      show (chainBodySeq flags).length ≤ (shS.fns.getD F default).body.length
      rw [hbody]; exact Nat.le_refl _
    have hc : frS.count < cfg.lim.callLimit := by simp at hcount; omega
    cases ls with
    | nil =>
      -- last link
      simp only [markersOk] at hmk
      simp only [chainStack] at hs hroom
      obtain ⟨rB, hrun, hsum⟩ := chainLevel_final H C cfg hno auth l.dk l.b4 l.e4 l.csig l.marker sig l.m flags st
        (setFnCount shS F (frS.count + 1)) (callFrame (shS.fns.getD F default) F frS.count) t thr
        hfrB hcapB hlenB hauth hdk hb4 he4 hcs hfl hml (by simpa [setFnCount, Level.cert] using hs) (by simpa [setFnCount] using hr)
        (by simpa [setFnCount] using ht) hthr hmk hsz (by simp at hroom; omega)
      refine ⟨_, run_call_last H C cfg frS shS 0 F rB hrest hcap hr hfn hc (by simpa using hlk) hrun, ?_⟩
      dsimp only
      rw [summary_wrapCall, hsum]
      simp only [chainSpec, setFnCount]
      rfl
    | cons l2 ls' =>
      simp only [markersOk] at hmk
      obtain ⟨htrue, hmk'⟩ := hmk
      simp only [chainStack] at hs hroom
      -- the state in which the level takes its decision, and the call site inside its IF arm
      let frB := callFrame (shS.fns.getD F default) F frS.count
      let sh2 := setFnCount shS F (frS.count + 1)
      let rest1 := l2.cert :: l2.marker :: chainStack ls' (sig :: st)
      let shL : Shared := { sh2 with stack := rest1, cache := levelCache sh2.cache auth l.dk l.b4 l.e4 l.csig l.m }
      have hih := ih l.dk
        { (inlineFrame (readCache "d" ++ CALL 0) { frB with rest := [] } shL) with rest := CALL 0 }
        { (copyDict shL frB.dict).2 with stack := l.dk :: rest1 }
        (by simp) hmk' (fun x hx => hwf x (by simp [hx])) hdk rfl rfl
        (by
          show (readCache "d" ++ CALL 0).length < (shS.fns.getD F default).body.length
          rw [hbody]
          have : (readCache "d" ++ CALL 0).length = 5 := by decide
          omega)
        (by
          show lookupDef 0 ((sh2.dicts ++ [sh2.dicts.getD (shS.fns.getD F default).dict []]).getD sh2.dicts.length []) = some F
          rw [getD_append_len, hdict]
          exact hlk0)
        (by
          show F < (shS.fns.set F _).length
          simpa using hF)
        (by
          show (sh2.fns.getD F default).body = _
          rw [setFnCount_getD shS F _ hF]
          exact hbody)
        (by
          show (sh2.fns.getD F default).dict = _
          rw [setFnCount_getD shS F _ hF]
          exact hdict)
        (by
          show d0 < (sh2.dicts ++ [_]).length
          simp only [List.length_append, List.length_singleton]
          have : sh2.dicts = shS.dicts := rfl
          rw [this]; omega)
        (by
          show lookupDef 0 ((sh2.dicts ++ [_]).getD d0 []) = some F
          rw [getD_append_lt _ _ _ _ (by exact hd0)]
          exact hlk0)
        (by
          show getCount { frB with rest := [] } shL + (l2 :: ls').length ≤ cfg.lim.callLimit
          have : getCount { frB with rest := [] } shL = frS.count + 1 := by
            show (sh2.fns.getD F default).count = _
            rw [setFnCount_getD shS F _ hF]
          rw [this]
          simp only [List.length_cons] at hcount ⊢
          omega)
        rfl (by show shS.returned = false; exact hr)
        (by
          show lookupC C16.tsKey (levelCache shS.cache auth l.dk l.b4 l.e4 l.csig l.m) = _
          rw [levelCache_ts]; exact ht)
        (by simp only [chainStack, List.length_cons] at hroom ⊢; omega)
      obtain ⟨rI, hrunI, hsumI⟩ := hih
      obtain ⟨rB, hrunB, hpass, hfail⟩ := chainLevel_delegates H C cfg auth l.dk l.b4 l.e4 l.csig l.marker l.m flags rest1
        sh2 frB t thr rI hfrB hcapB hlenB hauth hdk hb4 he4 hcs hml
        (by simpa [sh2, setFnCount, Level.cert, rest1] using hs) (by simpa [sh2, setFnCount] using hr)
        (by simpa [sh2, setFnCount] using ht) hthr htrue hsz
        (by simp only [rest1, List.length_cons] at hroom ⊢; omega) hrunI
      refine ⟨_, run_call_last H C cfg frS shS 0 F rB hrest hcap hr hfn hc (by simpa using hlk) hrunB, ?_⟩
      dsimp only
      rw [summary_wrapCall]
      by_cases hchk : levelChecks H C cfg auth l.dk l.b4 l.e4 l.csig l.m t thr
      · rw [hpass hchk, summary_wrapInline, hsumI]
        simp only [chainSpec, hchk, ↓reduceIte]
        exact chainSpec_levelCache H C cfg _ flags t thr sig st _ _ _ _ _ _ _ _
      · obtain ⟨s, hs'⟩ := hfail hchk
        rw [hs']
        simp only [chainSpec, hchk, ↓reduceIte]
        rfl

end TV.C14

namespace TV.C14
open Instr Tools

variable (H : Hashes) (C : Curve)

theorem chainBodySeq_length (flags : Nat) : (chainBodySeq flags).length < 65536 := by
  have h41 : (Tools.pushInt 41).length = 2 := by decide
  have h40 : (Tools.pushInt 40).length = 2 := by decide
  have h36 : (Tools.pushInt 36).length = 2 := by decide
  have h32 : (Tools.pushInt 32).length = 2 := by decide
  have hu : ∀ k, (u2 k).length = 2 := fun k => natToBytesBE_length 2 k
  have ha : ∀ s ∈ ["r", "s", "c", "e", "b", "d"], (asciiBytes s).length = 1 := by decide
  have hr := ha "r" (by simp); have hs := ha "s" (by simp); have hc := ha "c" (by simp)
  have he := ha "e" (by simp); have hb := ha "b" (by simp); have hd := ha "d" (by simp)
  simp only [chainBodySeq, chainDecide, ifElse, writeCache, readCache, opc, SPLIT, DUP, SWAP2, CSS, CALL, CHECK_SIG,
    List.length_append, List.length_cons, List.length_nil, h41, h40, h36, h32, hu, hr, hs, hc, he, hb, hd]
  omega

set_option maxHeartbeats 1600000 in
/-- **C14, the delegation-chain lock, chains of every length.** The bytes
    `make_delegate_key_chain_lock(root, flags)` compiles to, run in a top-level frame on the stack
    the chain witness leaves (`cert₁ :: marker₁ :: … :: certₙ :: markerₙ :: sig :: st`, `cert₁` the
    one issued by the root), end exactly as `chainSpec` says with the root as first authorizing
    key. -/
theorem chainLock_run (cfg : Cfg) (hno : cfg.sigExts = []) (root : Bytes) (flags : Nat) (hfl : flags < 256) (t thr : Int)
    (hthr : cfg.tsThreshold = some thr) (hsz : 105 ≤ cfg.lim.maxItemSize) (sig : Bytes) (st : List Bytes)
    (ls : List Level) (fr : Frame) (sh : Shared)
    (hne : ls ≠ []) (hmk : markersOk ls) (hwf : ∀ l ∈ ls, l.wf cfg) (hroot : root.length = 32)
    (hrest : fr.rest = delegateKeyChainLock root flags) (hfn : fr.fn = none) (hcap : fr.len0 < fr.cap)
    (hd : fr.dict < sh.dicts.length) (hcount : fr.count + ls.length ≤ cfg.lim.callLimit)
    (hs : sh.stack = chainStack ls (sig :: st)) (hr : sh.returned = false)
    (ht : lookupC C16.tsKey sh.cache = some (.atom (.int t)))
    (hroom : (chainStack ls (sig :: st)).length + 5 ≤ cfg.lim.maxItems) :
    Ends (instrTable H C cfg) cfg.lim fr sh
      (fun r => Res.summary r = chainSpec H C cfg sh.cache flags t thr sig st root ls) := by
  rw [chainLock_bytes] at hrest
  refine Ends.step (fun r h => run_def H C cfg fr sh 0 (chainBodySeq flags) _ r hrest (chainBodySeq_length flags) hcap hr h) ?_
  refine Ends.step (fun r h => run_pushB H C cfg _ _ root (CALL 0) r (by omega) (by omega) rfl hcap (by simpa [defState] using hr)
    (by omega) (by simp only [defState]; rw [hs]; omega) h) ?_
  have := chain_call H C cfg hno flags hfl sh.fns.length fr.dict t thr hthr hsz sig st ls root
    { fr with rest := CALL 0 }
    { (defState sh fr.dict (UInt8.ofNat 0) (chainBodySeq flags)) with stack := root :: (defState sh fr.dict (UInt8.ofNat 0) (chainBodySeq flags)).stack }
    hne hmk hwf hroot rfl hfn hcap
    (by simp [defState, List.getD_eq_getElem?_getD, hd, lookupDef])
    (by simp [defState])
    (by simp [defState, List.getD_eq_getElem?_getD])
    (by simp [defState, List.getD_eq_getElem?_getD])
    (by simpa [defState] using hd)
    (by simp [defState, List.getD_eq_getElem?_getD, hd, lookupDef])
    hcount (by simp only [defState]; rw [hs]) (by simpa [defState] using hr) (by simpa [defState] using ht) hroom
  simpa [defState] using this

/-- the chain lock leaves `true` exactly when every link passes and the final signature is
    C02-valid under the last delegate key -/
theorem chainLock_accepts_iff (cfg : Cfg) (cache : List (CKey × CVal)) (flags : Nat) (t thr : Int) (sig root : Bytes) (st : List Bytes)
    (ls : List Level) (hne : ls ≠ []) :
    chainSpec H C cfg cache flags t thr sig st root ls = .ok (boolBytes true :: st) ↔
      allLinks H C cfg t thr root ls ∧
      SigPure.checkSig H C cfg.lim.maxItemSize cache flags sig (lastKey root ls) = .ok true := by
  rw [chainSpec_ok_iff H C cfg cache flags t thr sig st _ ls root hne]
  constructor
  · rintro ⟨hall, b, hb, heq⟩
    refine ⟨hall, ?_⟩
    cases b with
    | true => exact hb
    | false =>
      have : boolBytes true = boolBytes false := (List.cons.inj heq).1
      exact absurd this (by decide)
  · rintro ⟨hall, hb⟩
    exact ⟨hall, true, hb, rfl⟩

/-- the same, stated for the frame `run_auth_scripts` creates for the lock script (call counter
    `count` inherited from the witness script) -/
theorem chainLock_run_top (cfg : Cfg) (hno : cfg.sigExts = []) (root : Bytes) (flags : Nat) (hfl : flags < 256) (t thr : Int)
    (hthr : cfg.tsThreshold = some thr) (hsz : 105 ≤ cfg.lim.maxItemSize) (sig : Bytes) (st : List Bytes)
    (ls : List Level) (count : Nat) (sh : Shared)
    (hne : ls ≠ []) (hmk : markersOk ls) (hwf : ∀ l ∈ ls, l.wf cfg) (hroot : root.length = 32)
    (hd : 0 < sh.dicts.length) (hcount : count + ls.length ≤ cfg.lim.callLimit)
    (hs : sh.stack = chainStack ls (sig :: st)) (hr : sh.returned = false)
    (ht : lookupC C16.tsKey sh.cache = some (.atom (.int t)))
    (hroom : (chainStack ls (sig :: st)).length + 5 ≤ cfg.lim.maxItems) :
    Ends (instrTable H C cfg) cfg.lim (topFrame (delegateKeyChainLock root flags) count) sh
      (fun r => Res.summary r = chainSpec H C cfg sh.cache flags t thr sig st root ls) :=
  chainLock_run H C cfg hno root flags hfl t thr hthr hsz sig st ls _ sh hne hmk hwf hroot rfl rfl (by simp [topFrame])
    hd hcount hs hr ht hroom

/-- Non-vacuity of the structural hypotheses: the builder's witness shape for two links (`true`
    after a delegable certificate, `false` after the last one). -/
example (cfg : Cfg) (h : 1 ≤ cfg.lim.maxItemSize) :
    let l1 : Level := ⟨List.replicate 32 1, [0, 0, 0, 1], [0, 0, 0, 9], 0xff, List.replicate 64 2, [0xff]⟩
    let l2 : Level := ⟨List.replicate 32 3, [0, 0, 0, 1], [0, 0, 0, 9], 0x00, List.replicate 64 4, [0x00]⟩
    markersOk [l1, l2] ∧ (∀ l ∈ [l1, l2], l.wf cfg) ∧ (chainStack [l1, l2] [[7]]).length = 5 := by
  refine ⟨by simp only [markersOk]; exact ⟨by simp [andBytes, truthy, zipWithPad], by simp [andBytes, truthy, zipWithPad]⟩, ?_, by decide⟩
  intro l hl
  simp only [List.mem_cons, List.not_mem_nil, or_false] at hl
  rcases hl with rfl | rfl <;> simp [Level.wf] <;> omega

end TV.C14
