import Tapeverif.Lemmas.VMRun
/-! # C06 — documented control-flow scoping (laws of the reference semantics)

The Lean model *is* the reference semantics the implementation is compared with; these are
the consequences a reader of the documentation relies on. For an arbitrary op table. -/
namespace TV.C06

variable (T : UInt8 → Op) (L : Limits)

/-- the frame an IF / ELSE / TRY / EXCEPT body runs in -/
def inlineFrame (fr : Frame) (sh : Shared) (body : Bytes) : Frame :=
  { rest := body, count := getCount fr sh, fn := none, dict := (copyDict sh fr.dict).1,
    len0 := body.length, cap := fr.len0 }

/-- the frame an EXCEPT body runs in (`sh2` = the state the failing TRY body left, plus `E`) -/
def exceptFrame (fr : Frame) (sh2 : Shared) (exc : Bytes) : Frame :=
  { rest := exc, count := getCount fr (copyDict sh2 fr.dict).2, fn := none,
    dict := (copyDict sh2 fr.dict).1, len0 := exc.length, cap := fr.len0 }

/-- the frame an evaluated script runs in -/
def evalFrame (fr : Frame) (sh : Shared) (body : Bytes) : Frame :=
  { rest := body, count := getCount fr sh + 1, fn := none, dict := (copyDict sh fr.dict).1,
    len0 := body.length, cap := body.length + 1 }

/-- IF / ELSE bodies are transparent to RETURN: if the body returned, the enclosing frame
    ends (and the flag stays pending for *its* caller). -/
theorem inline_body_transparent (fuel : Nat) (body : Bytes) (k : Op) (fr : Frame) (sh : Shared)
    (fr2 : Frame) (sh' : Shared)
    (hb : runTape T L fuel (inlineFrame fr sh body) (copyDict sh fr.dict).2 = .ok fr2 sh')
    (hr : sh'.returned = true) :
    runOp T L (fuel + 1) (.sub .inline body k) fr sh = .ok (endFrame fr) sh' := by
  unfold inlineFrame at hb
  simp only [runOp, hb, hr, ↓reduceIte]

/-- … otherwise execution continues right after the construct, in the *enclosing* frame. -/
theorem inline_body_continues (fuel : Nat) (body : Bytes) (k : Op) (fr : Frame) (sh : Shared)
    (fr2 : Frame) (sh' : Shared)
    (hb : runTape T L fuel (inlineFrame fr sh body) (copyDict sh fr.dict).2 = .ok fr2 sh')
    (hr : sh'.returned = false) :
    runOp T L (fuel + 1) (.sub .inline body k) fr sh = runOp T L fuel k fr sh' := by
  unfold inlineFrame at hb
  simp only [runOp, hb, hr, Bool.false_eq_true, ↓reduceIte]

/-- An evaluated script returns only to its caller: without the `eval_return` flag the
    caller continues after EVAL with the RETURN flag cleared. -/
theorem eval_returns_to_caller (fuel : Nat) (body : Bytes) (k : Op) (fr : Frame) (sh : Shared)
    (fr2 : Frame) (sh' : Shared) (hc : getCount fr sh < L.callLimit)
    (hb : runTape T L fuel (evalFrame fr sh body) (copyDict sh fr.dict).2 = .ok fr2 sh') :
    runOp T L (fuel + 1) (.sub (.eval false) body k) fr sh =
      runOp T L fuel k fr { sh' with returned := false } := by
  unfold evalFrame at hb
  simp only [runOp, hc, ↓reduceIte, hb, Bool.and_false, Bool.false_eq_true]

/-- An exception in a TRY body is caught, recorded under the *bytes* key `E`, and the EXCEPT
    body runs on the state the failure left — nothing is rolled back. -/
theorem try_runs_except_on_failure_state (fuel : Nat) (body exc : Bytes) (k : Op) (fr : Frame)
    (sh : Shared) (ek : ErrKind) (sh' : Shared)
    (hb : runTape T L fuel (inlineFrame fr sh body) (copyDict sh fr.dict).2 = .err (.user ek) sh') :
    runOp T L (fuel + 1) (.tryCatch body exc k) fr sh =
      (let sh2 : Shared := { sh' with cache := (.byt eKey, errValue ek) :: sh'.cache, eTaint := true }
       match runTape T L fuel (exceptFrame fr sh2 exc) (copyDict sh2 fr.dict).2 with
       | .err e2 sh4 => .err e2 sh4
       | .ok _ sh4 => if sh4.returned then .ok (endFrame fr) sh4 else runOp T L fuel k fr sh4) := by
  unfold inlineFrame at hb
  simp only [runOp, hb, exceptFrame]
  rfl

/-- A RETURN never affects instructions that run after the construct it ended: whenever a
    frame continues, the flag is clear (this is return hygiene, C01.4). -/
theorem return_never_leaks (fuel : Nat) (fr : Frame) (sh : Shared)
    (hi : StackInv L sh) (hr : sh.returned = false) :
    (runTape T L fuel fr sh).isGhost = false :=
  (post_shared L (runTape_post T L fuel fr sh hi hr)).2.2

end TV.C06
