import Tapeverif.Lemmas.Algebra
import Tapeverif.Lemmas.Codec
import Tapeverif.Props.C16
import Tapeverif.Model.Tools
import Tapeverif.Lemmas.RunInstr
import Tapeverif.Props.C10
/-! # C15 — hash- and point-time-locked contracts

What is proved here for all inputs: (1) the deadline a refund arm pushes is read back by
`OP_CHECK_TIMESTAMP_VERIFY` as exactly `created + timeout` for every non-negative deadline, so with
C16.1 the refund arm's time condition is exactly "t ≥ deadline and not ahead of the verifier
clock by the slack or more"; a negative deadline is read as a number ≥ 2^(8·len−1) (never
reached by an in-range timestamp); (2) the PTLC claim key algebra: the witness scalar
`(x + t) mod L` is the secret key of the lock's claim point `X + T`, and of no lock made for a
different tweak point. The byte-level lock / witness builders of the six lock kinds are model
definitions (`Model/Tools.lean`) compared with `tools.py` byte for byte on every run, and the
verdict grid of the property is decided by the model VM on the same inputs as the
implementation. -/
namespace TV.C15

open TV.Algebra Instr Tools

/-- the refund arm's constraint bytes read back (unsigned, as CHECK_TIMESTAMP reads them) as
    the deadline, for every non-negative deadline -/
theorem deadline_readback (d : Int) (h : 0 ≤ d) : (natOfBytesBE (intToBytes d) : Int) = d := by
  have hde := TV.decode_encode d
  unfold bytesToInt at hde
  split at hde
  · cases hde
  · simp only at hde
    split at hde
    · have hlt := natOfBytesBE_lt (intToBytes d)
      have hp : (256 : Nat) ^ (intToBytes d).length = 2 ^ ((intToBytes d).length * 8) := pow256 _
      have := Option.some.inj hde
      rw [hp] at hlt
      omega
    · exact Option.some.inj hde

/-- a negative deadline is read back as a number at least 2^(8·len − 1): with C16.1 the refund
    path then needs a timestamp that large -/
theorem negative_deadline_readback (d : Int) (h : d < 0) :
    2 ^ ((intToBytes d).length * 8 - 1) ≤ natOfBytesBE (intToBytes d) := by
  have hde := TV.decode_encode d
  unfold bytesToInt at hde
  split at hde
  · cases hde
  · simp only at hde
    split at hde
    · next hne =>
      have hpos : 0 < 2 ^ ((intToBytes d).length * 8 - 1) := Nat.two_pow_pos _
      exact Nat.le_of_not_lt (fun hlt => hne (Nat.div_eq_of_lt hlt))
    · have := Option.some.inj hde
      omega

/-- the refund arm's time condition, by C16.1 and `deadline_readback`:
    accepted ⇔ `t ≥ deadline ∧ (thr ≤ 0 ∨ t − now < thr)` -/
theorem refund_time_condition (t now thr d : Int) (h : 0 ≤ d) :
    C16.tsAccept t now thr (intToBytes d) = decide (d ≤ t ∧ (thr ≤ 0 ∨ t - now < thr)) := by
  unfold C16.tsAccept
  rw [deadline_readback d h]

variable {P : Type} [AddCommGroup P] (G : P) (L : ℕ) (hL : L • G = 0)

include hL in
/-- PTLC claim: the witness signs with scalar `(x + t) mod L`, whose public point is the
    lock's claim key `X + T` -/
theorem ptlc_claim_scalar (x t : ℕ) : ((x + t) % L) • G = x • G + t • G :=
  taproot_keyspend_scalar G L hL x t

include hL in
/-- … and is the secret of no claim key made with a different tweak point -/
theorem ptlc_claim_scalar_wrong_tweak (x t : ℕ) (T' : P) (hT : t • G ≠ T') :
    ((x + t) % L) • G ≠ x • G + T' := by
  rw [ptlc_claim_scalar G L hL]
  intro h
  exact hT (add_left_cancel h)

include hL in
/-- without the tweak scalar the receiver's own key does not open a tweaked lock (`T ≠ 0`) -/
theorem ptlc_receiver_alone_insufficient (x : ℕ) (T : P) (hT : T ≠ 0) :
    (x % L) • G ≠ x • G + T := by
  rw [smul_mod G L hL]
  intro h
  apply hT
  have : x • G + 0 = x • G + T := by rw [add_zero]; exact h
  exact (add_left_cancel this).symm

/-- Non-vacuity: the deadline boundary — with deadline 1010 a refund at t = 1010 passes the time
    condition and t = 1009 does not. -/
example : C16.tsAccept 1010 1000 60 (intToBytes 1010) = true ∧
          C16.tsAccept 1009 1000 60 (intToBytes 1010) = false := by decide

example : (natOfBytesBE (intToBytes (2 ^ 31)) : Int) = 2 ^ 31 := deadline_readback _ (by decide)

/-! ### the HTLC locks (first layout), executed symbolically -/

section htlc
variable (H : Hashes) (C : Curve)

/-- the outcome of the two-armed tail `if <sel> { push <claim key> } else { push <deadline> check_timestamp_verify
    push <refund key> } check_sig <flags>` shared by the HTLC and PTLC locks, as a function of its inputs -/
def armsSpec (cfg : Cfg) (cache : List (CKey × CVal)) (sel : Bool) (claim refund sig : Bytes) (deadline : Int) (flags : Nat)
    (t thr : Int) (st : List Bytes) : Except Err (List Bytes) :=
  if sel = true then
    match SigPure.checkSig H C cfg.lim.maxItemSize cache flags sig claim with
    | .ok b => .ok (boolBytes b :: st)
    | .error e => .error (.user e)
  else if C16.tsAccept t cfg.now thr (intToBytes deadline) = false then .error (.user .see)
  else
    match SigPure.checkSig H C cfg.lim.maxItemSize cache flags sig refund with
    | .ok b => .ok (boolBytes b :: st)
    | .error e => .error (.user e)

def armsTail (claim refund : Bytes) (deadline : Int) (flags : Nat) : Bytes :=
  ifElse (pushB claim) (refundArm deadline refund) ++ CHECK_SIG flags

set_option maxHeartbeats 1600000 in
/-- the two-armed tail, run from a stack `c :: sig :: st` -/
theorem armsTail_run (cfg : Cfg) (hno : cfg.sigExts = []) (c claim refund sig : Bytes) (deadline : Int)
    (flags : Nat) (st : List Bytes) (sh : Shared) (fr : Frame) (t thr : Int)
    (hfrest : fr.rest = armsTail claim refund deadline flags)
    (hcap : fr.len0 < fr.cap) (hlen0 : (armsTail claim refund deadline flags).length ≤ fr.len0)
    (hrc : claim.length = 32) (hrf : refund.length = 32)
    (hdl : (intToBytes deadline).length ≤ 64) (hfl : flags < 256)
    (hs : sh.stack = c :: sig :: st) (hr : sh.returned = false)
    (ht : lookupC C16.tsKey sh.cache = some (.atom (.int t))) (hthr : cfg.tsThreshold = some thr)
    (hsz : 64 ≤ cfg.lim.maxItemSize) (hroom : st.length + 3 ≤ cfg.lim.maxItems) :
    Ends (instrTable H C cfg) cfg.lim fr sh
      (fun r => Res.summary r = armsSpec H C cfg sh.cache (truthy c) claim refund sig deadline flags t thr st) := by
  have hdne : 0 < (intToBytes deadline).length := by
    have := C10.encode_ne_nil deadline
    cases h : intToBytes deadline with
    | nil => exact absurd h this
    | cons _ _ => simp
  have hpl : ∀ v : Bytes, 0 < v.length → v.length ≤ 64 → (pushB v).length ≤ v.length + 2 := by
    intro v h0 h1
    unfold pushB pushBytes
    by_cases h : v.length = 1
    · simp [h, opc]
    · have : 1 < v.length ∧ v.length < 256 := by omega
      simp [h, this, opc, natToBytesBE_length]; omega
  have hla : (pushB claim).length ≤ 34 := by have := hpl claim (by omega) (by omega); omega
  have hlr : (refundArm deadline refund).length ≤ 101 := by
    unfold refundArm
    have h1 := hpl (intToBytes deadline) hdne hdl
    have h2 := hpl refund (by omega) (by omega)
    have : Tools.pushInt deadline = pushB (intToBytes deadline) := rfl
    rw [this]
    simp [opc]; omega
  have hpi : Tools.pushInt deadline = pushB (intToBytes deadline) := rfl
  have hrestB : refundArm deadline refund = pushB (intToBytes deadline) ++ (opc CTSV ++ pushB refund) := by
    simp only [refundArm, hpi, List.append_assoc]
  have htl : (armsTail claim refund deadline flags).length ≥ (pushB claim).length + (refundArm deadline refund).length + 1 := by
    simp [armsTail, ifElse, opc]; omega
  have hbl_a : (pushB claim).length < fr.len0 := by omega
  have hbl_b : (refundArm deadline refund).length < fr.len0 := by omega
  rw [show fr = { fr with rest := armsTail claim refund deadline flags } by cases fr; simp_all]
  unfold armsTail armsSpec
  by_cases hsel : truthy c = true
  · -- claim arm
    rw [if_pos hsel]
    refine Ends.step (fun r h => run_ifelse_ok H C cfg _ _ _ _ _ (pushB claim) (refundArm deadline refund)
        c (sig :: st) r rfl (by omega) (by omega) hcap hr hs
        (by
          rw [hsel, if_pos rfl]
          exact run_pushB H C cfg _ _ claim [] _ (by omega) (by omega) (by simp [inlineFrame]) (by simpa [inlineFrame] using hbl_a)
            (by simp [copyDict, hr]) (by omega) (by simp [copyDict]; omega) (TSteps.nil rfl))
        (by simp [copyDict, hr]) h) ?_
    dsimp only
    refine ⟨_, run_checksig_last H C cfg hno _ _ flags claim sig st rfl hfl hcap (by simp [copyDict, hr]) (by simp [copyDict]) (by omega) (by omega), ?_⟩
    simp only [copyDict]
    cases SigPure.checkSig H C cfg.lim.maxItemSize sh.cache flags sig claim <;> rfl
  · -- refund arm
    have hsel' : truthy c = false := by simpa using hsel
    rw [if_neg hsel]
    by_cases hacc : C16.tsAccept t cfg.now thr (intToBytes deadline) = true
    · have hacc' : ¬ (C16.tsAccept t cfg.now thr (intToBytes deadline) = false) := by simp [hacc]
      rw [if_neg hacc']
      refine Ends.step (fun r h => run_ifelse_ok H C cfg _ _ _ _ _ (pushB claim) (refundArm deadline refund)
          c (sig :: st) r rfl (by omega) (by omega) hcap hr hs
          (by
            rw [hsel']
            simp only [Bool.false_eq_true, ↓reduceIte]
            refine run_pushB H C cfg _ _ (intToBytes deadline) (opc CTSV ++ pushB refund) _ hdne (by omega) (by simp [inlineFrame, hrestB])
              (by simpa [inlineFrame] using hbl_b) (by simp [copyDict, hr]) (by omega) (by simp [copyDict]; omega) ?_
            try dsimp only
            refine run_ctsv_ok H C cfg _ _ (pushB refund) (intToBytes deadline) (sig :: st) t thr _ rfl
              (by simpa [inlineFrame] using hbl_b) (by simp [copyDict, hr]) (by simp [copyDict]) (C10.encode_ne_nil deadline)
              (by simpa [copyDict] using ht) hthr (by omega) (by simp; omega) hacc ?_
            dsimp only
            exact run_pushB H C cfg _ _ refund [] _ (by omega) (by omega) (by simp)
              (by simpa [inlineFrame] using hbl_b) (by simp [copyDict, hr]) (by omega) (by simp [copyDict]; omega) (TSteps.nil rfl))
          (by simp [copyDict, hr]) h) ?_
      dsimp only
      refine ⟨_, run_checksig_last H C cfg hno _ _ flags refund sig st rfl hfl hcap (by simp [copyDict, hr]) (by simp [copyDict]) (by omega) (by omega), ?_⟩
      simp only [copyDict]
      cases SigPure.checkSig H C cfg.lim.maxItemSize sh.cache flags sig refund <;> rfl
    · have hacc' : C16.tsAccept t cfg.now thr (intToBytes deadline) = false := by simpa using hacc
      rw [if_pos hacc']
      refine ⟨_, run_ifelse_err H C cfg _ _ _ _ (pushB claim) (refundArm deadline refund)
          c (sig :: st) (.user .see) rfl (by omega) (by omega) hcap hr hs (by decide)
          (by
            rw [hsel']
            simp only [Bool.false_eq_true, ↓reduceIte]
            refine run_pushB H C cfg _ _ (intToBytes deadline) (opc CTSV ++ pushB refund) _ hdne (by omega) (by simp [inlineFrame, hrestB])
              (by simpa [inlineFrame] using hbl_b) (by simp [copyDict, hr]) (by omega) (by simp [copyDict]; omega) ?_
            try dsimp only
            exact run_ctsv_fail H C cfg _ _ (pushB refund) (intToBytes deadline) (sig :: st) t thr rfl
              (by simpa [inlineFrame] using hbl_b) (by simp [copyDict, hr]) (by simp [copyDict]) (C10.encode_ne_nil deadline)
              (by simpa [copyDict] using ht) hthr (by omega) (by simp; omega) hacc'), ?_⟩
      rfl

/-- the acceptance condition of an HTLC lock (first layout): `hx` is the hash of the supplied
    preimage item; the claim arm is selected exactly when it equals the digest -/
def htlcSpec (cfg : Cfg) (cache : List (CKey × CVal)) (hx digest receiver refund sig : Bytes) (deadline : Int) (flags : Nat)
    (t thr : Int) (st : List Bytes) : Except Err (List Bytes) :=
  armsSpec H C cfg cache (digest == hx) receiver refund sig deadline flags t thr st

/-- the lock after its hash instruction -/
def htlcTail (digest receiver refund : Bytes) (deadline : Int) (flags : Nat) : Bytes :=
  pushB digest ++ (EQUAL ++ armsTail receiver refund deadline flags)

theorem htlcLock_bytes (hashOp digest receiver refund : Bytes) (deadline : Int) (flags : Nat) :
    htlcLock hashOp digest receiver refund deadline flags = hashOp ++ htlcTail digest receiver refund deadline flags := by
  simp only [htlcLock, htlcTail, armsTail, List.append_assoc]

/-- the part of an HTLC lock after the hash instruction, run from a stack `hx :: sig :: st` -/
theorem htlcTail_run (cfg : Cfg) (hno : cfg.sigExts = []) (hx digest receiver refund sig : Bytes) (deadline : Int)
    (flags : Nat) (st : List Bytes) (sh : Shared) (fr : Frame) (t thr : Int)
    (hfrest : fr.rest = htlcTail digest receiver refund deadline flags)
    (hcap : fr.len0 < fr.cap) (hlen0 : (htlcTail digest receiver refund deadline flags).length < fr.len0)
    (hd0 : 0 < digest.length) (hd1 : digest.length ≤ 64) (hrc : receiver.length = 32) (hrf : refund.length = 32)
    (hdl : (intToBytes deadline).length ≤ 64) (hfl : flags < 256)
    (hs : sh.stack = hx :: sig :: st) (hr : sh.returned = false)
    (ht : lookupC C16.tsKey sh.cache = some (.atom (.int t))) (hthr : cfg.tsThreshold = some thr)
    (hsz : 64 ≤ cfg.lim.maxItemSize) (hroom : st.length + 4 ≤ cfg.lim.maxItems) :
    Ends (instrTable H C cfg) cfg.lim fr sh
      (fun r => Res.summary r = htlcSpec H C cfg sh.cache hx digest receiver refund sig deadline flags t thr st) := by
  have hlt : (armsTail receiver refund deadline flags).length ≤ fr.len0 := by
    have : (htlcTail digest receiver refund deadline flags).length ≥ (armsTail receiver refund deadline flags).length := by
      simp [htlcTail]; omega
    omega
  rw [show fr = { fr with rest := htlcTail digest receiver refund deadline flags } by cases fr; simp_all]
  unfold htlcTail
  refine Ends.step (fun r h => run_pushB H C cfg _ sh digest _ r hd0 (by omega) rfl hcap hr (by omega) (by rw [hs]; simp; omega) h) ?_
  dsimp only
  refine Ends.step (fun r h => run_equal H C cfg _ _ _ digest hx (sig :: st) r rfl hcap hr (by rw [hs]) (by omega) (by simp; omega) h) ?_
  dsimp only
  have := armsTail_run H C cfg hno (boolBytes (digest == hx)) receiver refund sig deadline flags st
    { sh with stack := boolBytes (digest == hx) :: sig :: st }
    { fr with rest := armsTail receiver refund deadline flags } t thr rfl hcap hlt hrc hrf hdl hfl rfl hr ht hthr hsz (by omega)
  have htr : truthy (boolBytes (digest == hx)) = (digest == hx) := by cases (digest == hx) <;> decide
  rw [htr] at this
  exact this

/-- deadlines below 2^62 (any realistic UNIX time plus timeout) encode in at most 9 bytes -/
theorem deadline_len (d : Int) (h0 : 0 ≤ d) (h1 : d < 2 ^ 62) : (intToBytes d).length ≤ 64 := by
  rw [intToBytes_length]
  have hneg : ¬ d < 0 := by omega
  simp only [hneg, ↓reduceIte]
  have hb : (if d.natAbs = 0 then 1 else bitLength d.natAbs) ≤ 62 := by
    split
    · omega
    · next hne =>
      have h2 := two_pow_le_of_bitLength d.natAbs hne
      have h3 : d.natAbs < 2 ^ 62 := by omega
      have := lt_pow_of_pow_le_lt h2 h3
      omega
  generalize (if d.natAbs = 0 then 1 else bitLength d.natAbs) = nb at *
  split <;> omega

/-- **C15, SHA-256 HTLC (first layout): exact outcome.** -/
theorem htlcSha256Lock_run (cfg : Cfg) (hno : cfg.sigExts = []) (hH : ∀ x, (H.sha256 x).length = 32)
    (x digest receiver refund sig : Bytes) (deadline : Int) (flags : Nat) (st : List Bytes) (sh : Shared) (count : Nat) (t thr : Int)
    (hd0 : 0 < digest.length) (hd1 : digest.length ≤ 64) (hrc : receiver.length = 32) (hrf : refund.length = 32)
    (hdl0 : 0 ≤ deadline) (hdl1 : deadline < 2 ^ 62) (hfl : flags < 256)
    (hs : sh.stack = x :: sig :: st) (hr : sh.returned = false)
    (ht : lookupC C16.tsKey sh.cache = some (.atom (.int t))) (hthr : cfg.tsThreshold = some thr)
    (hsz : 64 ≤ cfg.lim.maxItemSize) (hroom : st.length + 4 ≤ cfg.lim.maxItems) :
    Ends (instrTable H C cfg) cfg.lim (topFrame (htlcLock SHA256 digest receiver refund deadline flags) count) sh
      (fun r => Res.summary r = htlcSpec H C cfg sh.cache (H.sha256 x) digest receiver refund sig deadline flags t thr st) := by
  rw [htlcLock_bytes]
  unfold topFrame
  have hlen : (SHA256 ++ htlcTail digest receiver refund deadline flags).length = (htlcTail digest receiver refund deadline flags).length + 1 := by
    simp [SHA256, opc]
  refine Ends.step (fun r h => run_sha256 H C cfg _ sh _ x (sig :: st) r rfl (by simp) hr hs (by rw [hH]; omega) (by simp; omega) h) ?_
  dsimp only
  exact htlcTail_run H C cfg hno (H.sha256 x) digest receiver refund sig deadline flags st _ _ t thr rfl (by simp) (by simp [hlen])
    hd0 hd1 hrc hrf (deadline_len deadline hdl0 hdl1) hfl rfl hr ht hthr hsz hroom

/-- **C15, SHAKE-256 HTLC (first layout): exact outcome.** -/
theorem htlcShake256Lock_run (cfg : Cfg) (hno : cfg.sigExts = []) (n : Nat) (hn : n ≤ 64) (hH : ∀ x, (H.shake256 x n).length = n)
    (x digest receiver refund sig : Bytes) (deadline : Int) (flags : Nat) (st : List Bytes) (sh : Shared) (count : Nat) (t thr : Int)
    (hd0 : 0 < digest.length) (hd1 : digest.length ≤ 64) (hrc : receiver.length = 32) (hrf : refund.length = 32)
    (hdl0 : 0 ≤ deadline) (hdl1 : deadline < 2 ^ 62) (hfl : flags < 256)
    (hs : sh.stack = x :: sig :: st) (hr : sh.returned = false)
    (ht : lookupC C16.tsKey sh.cache = some (.atom (.int t))) (hthr : cfg.tsThreshold = some thr)
    (hsz : 64 ≤ cfg.lim.maxItemSize) (hroom : st.length + 4 ≤ cfg.lim.maxItems) :
    Ends (instrTable H C cfg) cfg.lim (topFrame (htlcLock (SHAKE256 n) digest receiver refund deadline flags) count) sh
      (fun r => Res.summary r = htlcSpec H C cfg sh.cache (H.shake256 x n) digest receiver refund sig deadline flags t thr st) := by
  rw [htlcLock_bytes]
  unfold topFrame
  have hlen : (SHAKE256 n ++ htlcTail digest receiver refund deadline flags).length = (htlcTail digest receiver refund deadline flags).length + 2 := by
    simp [SHAKE256, opc]
  refine Ends.step (fun r h => run_shake256 H C cfg _ sh _ n x (sig :: st) r rfl (by omega) (by simp) hr hs (by rw [hH]; omega) (by simp; omega) h) ?_
  dsimp only
  exact htlcTail_run H C cfg hno (H.shake256 x n) digest receiver refund sig deadline flags st _ _ t thr rfl (by simp) (by simp [hlen])
    hd0 hd1 hrc hrf (deadline_len deadline hdl0 hdl1) hfl rfl hr ht hthr hsz hroom

/-- **C15, HTLC claim and refund paths are exact.** The outcome `htlcSpec` is the verdict `[ff]`
    exactly when: the supplied item hashes to the digest and the signature passes C02 under the
    receiver key (at any time); or it does not hash to the digest, `t ≥ deadline`, `t` is not ahead
    of the clock by the slack or more, and the signature passes C02 under the refund key. -/
theorem htlcSpec_accepts_iff (cfg : Cfg) (cache : List (CKey × CVal)) (hx digest receiver refund sig : Bytes) (deadline : Int)
    (flags : Nat) (t thr : Int) (hdl0 : 0 ≤ deadline) :
    htlcSpec H C cfg cache hx digest receiver refund sig deadline flags t thr [] = .ok [[0xff]] ↔
      ((digest = hx ∧ SigPure.checkSig H C cfg.lim.maxItemSize cache flags sig receiver = .ok true) ∨
       (digest ≠ hx ∧ deadline ≤ t ∧ (thr ≤ 0 ∨ t - cfg.now < thr) ∧
          SigPure.checkSig H C cfg.lim.maxItemSize cache flags sig refund = .ok true)) := by
  unfold htlcSpec armsSpec
  rw [refund_time_condition t cfg.now thr deadline hdl0]
  by_cases heq : digest = hx
  · subst heq
    simp only [beq_self_eq_true, ↓reduceIte, true_and, ne_eq, not_true_eq_false, false_and, or_false]
    cases SigPure.checkSig H C cfg.lim.maxItemSize cache flags sig receiver with
    | error e => simp
    | ok b => cases b <;> simp [boolBytes]
  · have hb : (digest == hx) = false := by simpa using heq
    simp only [hb, Bool.false_eq_true, ↓reduceIte, heq, false_and, false_or, ne_eq, not_false_eq_true, true_and]
    by_cases hw : deadline ≤ t ∧ (thr ≤ 0 ∨ t - cfg.now < thr)
    · simp only [hw, decide_true, Bool.true_eq_false, ↓reduceIte, and_self, true_and]
      cases SigPure.checkSig H C cfg.lim.maxItemSize cache flags sig refund with
      | error e => simp
      | ok b => cases b <;> simp [boolBytes]
    · simp only [hw, decide_false, ↓reduceIte]
      constructor
      · intro h; cases h
      · intro ⟨h1, h2, _⟩; exact absurd ⟨h1, h2⟩ hw


/-! ### the PTLC lock -/

/-- the bytes of `make_ptlc_lock` once the claim key is known -/
theorem ptlcLock_bytes (receiver refund : Bytes) (tweak : Option Bytes) (deadline : Int) (flags : Nat) (claim : Bytes)
    (hclaim : (match tweak with | some T => Sodium.aggregatePoints C [receiver, T] | none => pure receiver) = .ok claim) :
    ptlcLock C receiver refund tweak deadline flags = .ok (armsTail claim refund deadline flags) := by
  cases tweak with
  | none =>
    have : receiver = claim := by injection hclaim
    subst this
    rfl
  | some T =>
    have h : Sodium.aggregatePoints C [receiver, T] = .ok claim := hclaim
    unfold ptlcLock armsTail
    simp only [h]
    rfl

/-- **C15, PTLC lock: exact outcome.** With the claim key `claim` (the receiver key, or
    `receiver + T` when a tweak point is given — `ptlcLock_bytes`), selector item `c` and signature
    `sig` left by the witness: a true selector ends with the C02 verdict of `sig` under the claim
    key (at any time); a false one ends in an error unless `t ≥ deadline` within the clock slack,
    and then with the C02 verdict under the refund key. -/
theorem ptlcLock_run (cfg : Cfg) (hno : cfg.sigExts = []) (c claim refund sig : Bytes) (deadline : Int)
    (flags : Nat) (st : List Bytes) (sh : Shared) (count : Nat) (t thr : Int)
    (hrc : claim.length = 32) (hrf : refund.length = 32)
    (hdl0 : 0 ≤ deadline) (hdl1 : deadline < 2 ^ 62) (hfl : flags < 256)
    (hs : sh.stack = c :: sig :: st) (hr : sh.returned = false)
    (ht : lookupC C16.tsKey sh.cache = some (.atom (.int t))) (hthr : cfg.tsThreshold = some thr)
    (hsz : 64 ≤ cfg.lim.maxItemSize) (hroom : st.length + 3 ≤ cfg.lim.maxItems) :
    Ends (instrTable H C cfg) cfg.lim (topFrame (armsTail claim refund deadline flags) count) sh
      (fun r => Res.summary r = armsSpec H C cfg sh.cache (truthy c) claim refund sig deadline flags t thr st) := by
  unfold topFrame
  exact armsTail_run H C cfg hno c claim refund sig deadline flags st sh _ t thr rfl (by simp) (by simp)
    hrc hrf (deadline_len deadline hdl0 hdl1) hfl hs hr ht hthr hsz hroom

/-- … and that outcome is the verdict `[ff]` exactly on the claim path with a C02-valid signature
    under the claim key, or on the refund path once `t ≥ deadline` (within the slack) with a
    C02-valid signature under the refund key -/
theorem armsSpec_accepts_iff (cfg : Cfg) (cache : List (CKey × CVal)) (sel : Bool) (claim refund sig : Bytes) (deadline : Int)
    (flags : Nat) (t thr : Int) (hdl0 : 0 ≤ deadline) :
    armsSpec H C cfg cache sel claim refund sig deadline flags t thr [] = .ok [[0xff]] ↔
      ((sel = true ∧ SigPure.checkSig H C cfg.lim.maxItemSize cache flags sig claim = .ok true) ∨
       (sel = false ∧ deadline ≤ t ∧ (thr ≤ 0 ∨ t - cfg.now < thr) ∧
          SigPure.checkSig H C cfg.lim.maxItemSize cache flags sig refund = .ok true)) := by
  unfold armsSpec
  rw [refund_time_condition t cfg.now thr deadline hdl0]
  cases sel with
  | true =>
    simp only [↓reduceIte, true_and, Bool.true_eq_false, false_and, or_false]
    cases SigPure.checkSig H C cfg.lim.maxItemSize cache flags sig claim with
    | error e => simp
    | ok b => cases b <;> simp [boolBytes]
  | false =>
    simp only [Bool.false_eq_true, ↓reduceIte, false_and, false_or, true_and]
    by_cases hw : deadline ≤ t ∧ (thr ≤ 0 ∨ t - cfg.now < thr)
    · simp only [hw, decide_true, Bool.true_eq_false, ↓reduceIte, and_self, true_and]
      cases SigPure.checkSig H C cfg.lim.maxItemSize cache flags sig refund with
      | error e => simp
      | ok b => cases b <;> simp [boolBytes]
    · simp only [hw, decide_false, ↓reduceIte]
      constructor
      · intro h; cases h
      · intro ⟨h1, h2, _⟩; exact absurd ⟨h1, h2⟩ hw

/-! ### the second HTLC layout (keys committed by hash) -/

/-- outcome of the second HTLC layout (keys committed by their SHAKE-256 hashes): `hx` is the
    hash of the supplied preimage item, `key` the public key the witness supplies -/
def htlc2Spec (cfg : Cfg) (cache : List (CKey × CVal)) (hs : Nat) (hx digest receiver refund key sig : Bytes)
    (deadline : Int) (flags : Nat) (t thr : Int) (st : List Bytes) : Except Err (List Bytes) :=
  if (digest == hx) = true then
    if H.shake256 receiver hs = H.shake256 key hs then
      match SigPure.checkSig H C cfg.lim.maxItemSize cache flags sig key with
      | .ok b => .ok (boolBytes b :: st)
      | .error e => .error (.user e)
    else .error (.user .see)
  else if C16.tsAccept t cfg.now thr (intToBytes deadline) = false then .error (.user .see)
  else if H.shake256 refund hs = H.shake256 key hs then
    match SigPure.checkSig H C cfg.lim.maxItemSize cache flags sig key with
    | .ok b => .ok (boolBytes b :: st)
    | .error e => .error (.user e)
  else .error (.user .see)

def claim2 (hs : Nat) (receiver : Bytes) : Bytes := DUP ++ (SHAKE256 hs ++ pushB (H.shake256 receiver hs))
def refund2 (hs : Nat) (refund : Bytes) (deadline : Int) : Bytes :=
  pushB (intToBytes deadline) ++ (opc CTSV ++ (DUP ++ (SHAKE256 hs ++ pushB (H.shake256 refund hs))))

def htlc2Tail (hs : Nat) (digest receiver refund : Bytes) (deadline : Int) (flags : Nat) : Bytes :=
  pushB digest ++ (EQUAL ++ (ifElse (claim2 H hs receiver) (refund2 H hs refund deadline) ++ (EQUAL_VERIFY ++ CHECK_SIG flags)))

theorem htlc2Lock_bytes (hashOp digest receiver refund : Bytes) (hs : Nat) (deadline : Int) (flags : Nat) :
    htlc2Lock H hashOp digest receiver refund hs deadline flags = hashOp ++ htlc2Tail H hs digest receiver refund deadline flags := by
  have hpi : Tools.pushInt deadline = pushB (intToBytes deadline) := rfl
  simp only [htlc2Lock, htlc2Tail, claim2, refund2, hpi, List.append_assoc]

set_option maxHeartbeats 3200000 in
/-- the second-layout lock after its hash instruction, run from a stack `hx :: key :: sig :: st` -/
theorem htlc2Tail_run (cfg : Cfg) (hno : cfg.sigExts = []) (hs : Nat) (hhs : hs < 256) (hhs0 : 0 < hs) (hhs1 : hs ≤ 64)
    (hH : ∀ x, (H.shake256 x hs).length = hs)
    (hx digest receiver refund key sig : Bytes) (deadline : Int)
    (flags : Nat) (st : List Bytes) (sh : Shared) (fr : Frame) (t thr : Int)
    (hfrest : fr.rest = htlc2Tail H hs digest receiver refund deadline flags)
    (hcap : fr.len0 < fr.cap) (hlen0 : (htlc2Tail H hs digest receiver refund deadline flags).length ≤ fr.len0)
    (hd0 : 0 < digest.length) (hd1 : digest.length ≤ 64) (hkey : key.length ≤ 64)
    (hdl : (intToBytes deadline).length ≤ 64) (hfl : flags < 256)
    (hstk : sh.stack = hx :: key :: sig :: st) (hr : sh.returned = false)
    (ht : lookupC C16.tsKey sh.cache = some (.atom (.int t))) (hthr : cfg.tsThreshold = some thr)
    (hsz : 64 ≤ cfg.lim.maxItemSize) (hroom : st.length + 6 ≤ cfg.lim.maxItems) :
    Ends (instrTable H C cfg) cfg.lim fr sh
      (fun r => Res.summary r = htlc2Spec H C cfg sh.cache hs hx digest receiver refund key sig deadline flags t thr st) := by
  have hdne : 0 < (intToBytes deadline).length := by
    have := C10.encode_ne_nil deadline
    cases h : intToBytes deadline with
    | nil => exact absurd h this
    | cons _ _ => simp
  have hpl : ∀ v : Bytes, 0 < v.length → v.length ≤ 64 → (pushB v).length ≤ v.length + 2 := by
    intro v h0 h1
    unfold pushB pushBytes
    by_cases h : v.length = 1
    · simp [h, opc]
    · have : 1 < v.length ∧ v.length < 256 := by omega
      simp [h, this, opc, natToBytesBE_length]; omega
  have hla : (claim2 H hs receiver).length ≤ 69 := by
    have := hpl (H.shake256 receiver hs) (by rw [hH]; omega) (by rw [hH]; omega)
    rw [hH] at this
    simp [claim2, DUP, SHAKE256, opc]; omega
  have hlr : (refund2 H hs refund deadline).length ≤ 136 := by
    have h1 := hpl (H.shake256 refund hs) (by rw [hH]; omega) (by rw [hH]; omega)
    have h2 := hpl (intToBytes deadline) hdne hdl
    rw [hH] at h1
    simp [refund2, DUP, SHAKE256, opc]; omega
  have htl : (htlc2Tail H hs digest receiver refund deadline flags).length ≥ (claim2 H hs receiver).length + (refund2 H hs refund deadline).length + 1 := by
    simp [htlc2Tail, ifElse, opc]; omega
  have hbl_a : (claim2 H hs receiver).length < fr.len0 := by omega
  have hbl_b : (refund2 H hs refund deadline).length < fr.len0 := by omega
  rw [show fr = { fr with rest := htlc2Tail H hs digest receiver refund deadline flags } by cases fr; simp_all]
  unfold htlc2Tail
  refine Ends.step (fun r h => run_pushB H C cfg _ sh digest _ r hd0 (by omega) rfl hcap hr (by omega) (by rw [hstk]; simp; omega) h) ?_
  dsimp only
  refine Ends.step (fun r h => run_equal H C cfg _ _ _ digest hx (key :: sig :: st) r rfl hcap hr (by rw [hstk]) (by omega) (by simp; omega) h) ?_
  dsimp only
  unfold htlc2Spec
  -- the tail shared by both arms: [target, shake key, key, sig] -> EQUAL_VERIFY -> CHECK_SIG
  have hfinish : ∀ (target : Bytes) (sh2 : Shared), target.length = hs → sh2.stack = target :: H.shake256 key hs :: key :: sig :: st →
      sh2.returned = false → sh2.cache = sh.cache →
      Ends (instrTable H C cfg) cfg.lim { fr with rest := EQUAL_VERIFY ++ CHECK_SIG flags } sh2
        (fun r => Res.summary r = (if target = H.shake256 key hs then
            (match SigPure.checkSig H C cfg.lim.maxItemSize sh.cache flags sig key with
             | .ok b => .ok (boolBytes b :: st)
             | .error e => .error (.user e)) else .error (.user .see))) := by
    intro target sh2 htg hs2 hr2 hc2
    by_cases heq : target = H.shake256 key hs
    · rw [if_pos heq]
      refine Ends.step (fun r h => run_equal_verify_ok H C cfg _ sh2 _ target (H.shake256 key hs) (key :: sig :: st) r rfl hcap hr2 hs2 heq (by omega) (by simp; omega) h) ?_
      dsimp only
      refine ⟨_, run_checksig_last H C cfg hno _ _ flags key sig st rfl hfl hcap hr2 rfl (by omega) (by omega), ?_⟩
      dsimp only
      rw [hc2]
      cases SigPure.checkSig H C cfg.lim.maxItemSize sh.cache flags sig key <;> rfl
    · rw [if_neg heq]
      exact ⟨_, run_equal_verify_fail H C cfg _ sh2 _ target (H.shake256 key hs) (key :: sig :: st) rfl hcap hr2 hs2 heq (by omega) (by simp; omega), rfl⟩
  by_cases hsel : (digest == hx) = true
  · rw [if_pos hsel]
    refine Ends.step (fun r h => run_ifelse_ok H C cfg _ _ _ _ _ (claim2 H hs receiver) (refund2 H hs refund deadline)
        (boolBytes (digest == hx)) (key :: sig :: st) r rfl (by omega) (by omega) hcap hr rfl
        (by
          rw [hsel, show truthy (boolBytes true) = true by decide, if_pos rfl]
          refine run_dup H C cfg _ _ (SHAKE256 hs ++ pushB (H.shake256 receiver hs)) key (sig :: st) _ (by simp [inlineFrame, claim2])
            (by simpa [inlineFrame] using hbl_a) (by simp [copyDict, hr]) (by simp [copyDict]) (by omega) (by simp; omega) ?_
          dsimp only
          refine run_shake256 H C cfg _ _ (pushB (H.shake256 receiver hs)) hs key (key :: sig :: st) _ rfl hhs
            (by simpa [inlineFrame] using hbl_a) (by simp [copyDict, hr]) rfl (by rw [hH]; omega) (by simp; omega) ?_
          dsimp only
          exact run_pushB H C cfg _ _ (H.shake256 receiver hs) [] _ (by rw [hH]; omega) (by rw [hH]; omega) (by simp)
            (by simpa [inlineFrame] using hbl_a) (by simp [copyDict, hr]) (by rw [hH]; omega) (by simp; omega) (TSteps.nil rfl))
        (by simp [copyDict, hr]) h) ?_
    dsimp only
    exact hfinish (H.shake256 receiver hs) _ (hH _) (by simp [copyDict]) (by simp [copyDict, hr]) (by simp [copyDict])
  · have hsel' : (digest == hx) = false := by simpa using hsel
    rw [if_neg hsel]
    by_cases hacc : C16.tsAccept t cfg.now thr (intToBytes deadline) = true
    · have hacc' : ¬ (C16.tsAccept t cfg.now thr (intToBytes deadline) = false) := by simp [hacc]
      rw [if_neg hacc']
      refine Ends.step (fun r h => run_ifelse_ok H C cfg _ _ _ _ _ (claim2 H hs receiver) (refund2 H hs refund deadline)
          (boolBytes (digest == hx)) (key :: sig :: st) r rfl (by omega) (by omega) hcap hr rfl
          (by
            rw [hsel', show truthy (boolBytes false) = false by decide]
            simp only [Bool.false_eq_true, ↓reduceIte]
            refine run_pushB H C cfg _ _ (intToBytes deadline) (opc CTSV ++ (DUP ++ (SHAKE256 hs ++ pushB (H.shake256 refund hs)))) _ hdne (by omega)
              (by simp [inlineFrame, refund2]) (by simpa [inlineFrame] using hbl_b) (by simp [copyDict, hr]) (by omega) (by simp [copyDict]; omega) ?_
            try dsimp only
            refine run_ctsv_ok H C cfg _ _ (DUP ++ (SHAKE256 hs ++ pushB (H.shake256 refund hs))) (intToBytes deadline) (key :: sig :: st) t thr _ rfl
              (by simpa [inlineFrame] using hbl_b) (by simp [copyDict, hr]) (by simp [copyDict]) (C10.encode_ne_nil deadline)
              (by simpa [copyDict] using ht) hthr (by omega) (by simp; omega) hacc ?_
            dsimp only
            refine run_dup H C cfg _ _ (SHAKE256 hs ++ pushB (H.shake256 refund hs)) key (sig :: st) _ rfl
              (by simpa [inlineFrame] using hbl_b) (by simp [copyDict, hr]) rfl (by omega) (by simp; omega) ?_
            dsimp only
            refine run_shake256 H C cfg _ _ (pushB (H.shake256 refund hs)) hs key (key :: sig :: st) _ rfl hhs
              (by simpa [inlineFrame] using hbl_b) (by simp [copyDict, hr]) rfl (by rw [hH]; omega) (by simp; omega) ?_
            dsimp only
            exact run_pushB H C cfg _ _ (H.shake256 refund hs) [] _ (by rw [hH]; omega) (by rw [hH]; omega) (by simp)
              (by simpa [inlineFrame] using hbl_b) (by simp [copyDict, hr]) (by rw [hH]; omega) (by simp; omega) (TSteps.nil rfl))
          (by simp [copyDict, hr]) h) ?_
      dsimp only
      exact hfinish (H.shake256 refund hs) _ (hH _) (by simp [copyDict]) (by simp [copyDict, hr]) (by simp [copyDict])
    · have hacc' : C16.tsAccept t cfg.now thr (intToBytes deadline) = false := by simpa using hacc
      rw [if_pos hacc']
      refine ⟨_, run_ifelse_err H C cfg _ _ _ _ (claim2 H hs receiver) (refund2 H hs refund deadline)
          (boolBytes (digest == hx)) (key :: sig :: st) (.user .see) rfl (by omega) (by omega) hcap hr rfl (by decide)
          (by
            rw [hsel', show truthy (boolBytes false) = false by decide]
            simp only [Bool.false_eq_true, ↓reduceIte]
            refine run_pushB H C cfg _ _ (intToBytes deadline) (opc CTSV ++ (DUP ++ (SHAKE256 hs ++ pushB (H.shake256 refund hs)))) _ hdne (by omega)
              (by simp [inlineFrame, refund2]) (by simpa [inlineFrame] using hbl_b) (by simp [copyDict, hr]) (by omega) (by simp [copyDict]; omega) ?_
            try dsimp only
            exact run_ctsv_fail H C cfg _ _ (DUP ++ (SHAKE256 hs ++ pushB (H.shake256 refund hs))) (intToBytes deadline) (key :: sig :: st) t thr rfl
              (by simpa [inlineFrame] using hbl_b) (by simp [copyDict, hr]) (by simp [copyDict]) (C10.encode_ne_nil deadline)
              (by simpa [copyDict] using ht) hthr (by omega) (by simp; omega) hacc'), ?_⟩
      rfl


/-- **C15, SHA-256 HTLC, second layout: exact outcome.** -/
theorem htlc2Sha256Lock_run (cfg : Cfg) (hno : cfg.sigExts = []) (hH : ∀ x, (H.sha256 x).length = 32)
    (hs : Nat) (hhs : hs < 256) (hhs0 : 0 < hs) (hhs1 : hs ≤ 64) (hHs : ∀ x, (H.shake256 x hs).length = hs)
    (x digest receiver refund key sig : Bytes) (deadline : Int) (flags : Nat) (st : List Bytes) (sh : Shared) (count : Nat) (t thr : Int)
    (hd0 : 0 < digest.length) (hd1 : digest.length ≤ 64) (hkey : key.length ≤ 64)
    (hdl0 : 0 ≤ deadline) (hdl1 : deadline < 2 ^ 62) (hfl : flags < 256)
    (hstk : sh.stack = x :: key :: sig :: st) (hr : sh.returned = false)
    (ht : lookupC C16.tsKey sh.cache = some (.atom (.int t))) (hthr : cfg.tsThreshold = some thr)
    (hsz : 64 ≤ cfg.lim.maxItemSize) (hroom : st.length + 6 ≤ cfg.lim.maxItems) :
    Ends (instrTable H C cfg) cfg.lim (topFrame (htlc2Lock H SHA256 digest receiver refund hs deadline flags) count) sh
      (fun r => Res.summary r = htlc2Spec H C cfg sh.cache hs (H.sha256 x) digest receiver refund key sig deadline flags t thr st) := by
  rw [htlc2Lock_bytes]
  unfold topFrame
  refine Ends.step (fun r h => run_sha256 H C cfg _ sh _ x (key :: sig :: st) r rfl (by simp) hr hstk (by rw [hH]; omega) (by simp; omega) h) ?_
  dsimp only
  exact htlc2Tail_run H C cfg hno hs hhs hhs0 hhs1 hHs (H.sha256 x) digest receiver refund key sig deadline flags st _ _ t thr rfl (by simp)
    (by simp [SHA256, opc]) hd0 hd1 hkey (deadline_len deadline hdl0 hdl1) hfl rfl hr ht hthr hsz hroom

/-- **C15, SHAKE-256 HTLC, second layout: exact outcome** (the digest size is also the key-hash size). -/
theorem htlc2Shake256Lock_run (cfg : Cfg) (hno : cfg.sigExts = [])
    (hs : Nat) (hhs : hs < 256) (hhs0 : 0 < hs) (hhs1 : hs ≤ 64) (hHs : ∀ x, (H.shake256 x hs).length = hs)
    (x digest receiver refund key sig : Bytes) (deadline : Int) (flags : Nat) (st : List Bytes) (sh : Shared) (count : Nat) (t thr : Int)
    (hd0 : 0 < digest.length) (hd1 : digest.length ≤ 64) (hkey : key.length ≤ 64)
    (hdl0 : 0 ≤ deadline) (hdl1 : deadline < 2 ^ 62) (hfl : flags < 256)
    (hstk : sh.stack = x :: key :: sig :: st) (hr : sh.returned = false)
    (ht : lookupC C16.tsKey sh.cache = some (.atom (.int t))) (hthr : cfg.tsThreshold = some thr)
    (hsz : 64 ≤ cfg.lim.maxItemSize) (hroom : st.length + 6 ≤ cfg.lim.maxItems) :
    Ends (instrTable H C cfg) cfg.lim (topFrame (htlc2Lock H (SHAKE256 hs) digest receiver refund hs deadline flags) count) sh
      (fun r => Res.summary r = htlc2Spec H C cfg sh.cache hs (H.shake256 x hs) digest receiver refund key sig deadline flags t thr st) := by
  rw [htlc2Lock_bytes]
  unfold topFrame
  refine Ends.step (fun r h => run_shake256 H C cfg _ sh _ hs x (key :: sig :: st) r rfl hhs (by simp) hr hstk (by rw [hHs]; omega) (by simp; omega) h) ?_
  dsimp only
  exact htlc2Tail_run H C cfg hno hs hhs hhs0 hhs1 hHs (H.shake256 x hs) digest receiver refund key sig deadline flags st _ _ t thr rfl (by simp)
    (by simp [SHAKE256, opc]; omega) hd0 hd1 hkey (deadline_len deadline hdl0 hdl1) hfl rfl hr ht hthr hsz hroom

/-- **second layout: claim and refund paths are exact.** The verdict `[ff]` exactly when the item
    hashes to the digest, the supplied key hashes to the committed receiver-key hash and the
    signature passes C02 under it; or the item does not hash to the digest, `t ≥ deadline` within
    the clock slack, the supplied key hashes to the committed refund-key hash and the signature
    passes C02 under it. -/
theorem htlc2Spec_accepts_iff (cfg : Cfg) (cache : List (CKey × CVal)) (hs : Nat) (hx digest receiver refund key sig : Bytes)
    (deadline : Int) (flags : Nat) (t thr : Int) (hdl0 : 0 ≤ deadline) :
    htlc2Spec H C cfg cache hs hx digest receiver refund key sig deadline flags t thr [] = .ok [[0xff]] ↔
      ((digest = hx ∧ H.shake256 receiver hs = H.shake256 key hs ∧
          SigPure.checkSig H C cfg.lim.maxItemSize cache flags sig key = .ok true) ∨
       (digest ≠ hx ∧ deadline ≤ t ∧ (thr ≤ 0 ∨ t - cfg.now < thr) ∧ H.shake256 refund hs = H.shake256 key hs ∧
          SigPure.checkSig H C cfg.lim.maxItemSize cache flags sig key = .ok true)) := by
  unfold htlc2Spec
  rw [refund_time_condition t cfg.now thr deadline hdl0]
  have hcs : ((match SigPure.checkSig H C cfg.lim.maxItemSize cache flags sig key with
               | .ok b => (Except.ok [boolBytes b] : Except Err (List Bytes))
               | .error e => .error (.user e)) = .ok [[0xff]]) ↔
             SigPure.checkSig H C cfg.lim.maxItemSize cache flags sig key = .ok true := by
    cases SigPure.checkSig H C cfg.lim.maxItemSize cache flags sig key with
    | error e => simp
    | ok b => cases b <;> simp [boolBytes]
  by_cases heq : digest = hx
  · subst heq
    simp only [beq_self_eq_true, ↓reduceIte, true_and, ne_eq, not_true_eq_false, false_and, or_false]
    by_cases hk : H.shake256 receiver hs = H.shake256 key hs
    · simp only [hk, ↓reduceIte, true_and]; exact hcs
    · simp only [hk, ↓reduceIte, false_and]
      constructor
      · intro h; cases h
      · intro h; exact h.elim
  · have hb : (digest == hx) = false := by simpa using heq
    simp only [hb, Bool.false_eq_true, ↓reduceIte, heq, false_and, false_or, ne_eq, not_false_eq_true, true_and]
    by_cases hw : deadline ≤ t ∧ (thr ≤ 0 ∨ t - cfg.now < thr)
    · simp only [hw, decide_true, Bool.true_eq_false, ↓reduceIte, and_self, true_and]
      by_cases hk : H.shake256 refund hs = H.shake256 key hs
      · simp only [hk, ↓reduceIte, true_and]; exact hcs
      · simp only [hk, ↓reduceIte, false_and]
        constructor
        · intro h; cases h
        · intro h; exact h.elim
    · simp only [hw, decide_false, ↓reduceIte]
      constructor
      · intro h; cases h
      · intro ⟨h1, h2, _⟩; exact absurd ⟨h1, h2⟩ hw


end htlc

end TV.C15
