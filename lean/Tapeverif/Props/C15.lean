import Tapeverif.Lemmas.Algebra
import Tapeverif.Lemmas.Codec
import Tapeverif.Props.C16
import Tapeverif.Model.Tools
/-! # C15 — hash- and point-time-locked contracts

What is proved here for all inputs: (1) the deadline a refund arm pushes is read back by
`OP_CHECK_TIMESTAMP_VERIFY` as exactly `created + timeout` for every non-negative deadline, so with
C16.1 the refund arm's time condition is exactly "t ≥ deadline and not ahead of the verifier
clock by the slack or more"; a negative deadline is read as a number ≥ 2^(8·len−1) (never
reached by an in-range timestamp); (2) the PTLC claim key algebra: the witness scalar
`(x + t) mod L` is the secret key of the lock's claim point `X + T`, and of no lock made for a
different tweak point. The byte-level lock / witness builders of the six lock kinds are model
definitions (`Model/Tools.lean`) compared with `tools.py` byte for byte on every run, and the
verdict grid of the property is decided by the model VM on the same inputs as the
implementation. -/
namespace TV.C15

open TV.Algebra Tools

/-- the refund arm's constraint bytes read back (unsigned, as CHECK_TIMESTAMP reads them) as
    the deadline, for every non-negative deadline -/
theorem deadline_readback (d : Int) (h : 0 ≤ d) : (natOfBytesBE (intToBytes d) : Int) = d := by
  have hde := TV.decode_encode d
  unfold bytesToInt at hde
  split at hde
  · cases hde
  · simp only at hde
    split at hde
    · have hlt := natOfBytesBE_lt (intToBytes d)
      have hp : (256 : Nat) ^ (intToBytes d).length = 2 ^ ((intToBytes d).length * 8) := pow256 _
      have := Option.some.inj hde
      rw [hp] at hlt
      omega
    · exact Option.some.inj hde

/-- a negative deadline is read back as a number at least 2^(8·len − 1): with C16.1 the refund
    path then needs a timestamp that large -/
theorem negative_deadline_readback (d : Int) (h : d < 0) :
    2 ^ ((intToBytes d).length * 8 - 1) ≤ natOfBytesBE (intToBytes d) := by
  have hde := TV.decode_encode d
  unfold bytesToInt at hde
  split at hde
  · cases hde
  · simp only at hde
    split at hde
    · next hne =>
      have hpos : 0 < 2 ^ ((intToBytes d).length * 8 - 1) := Nat.two_pow_pos _
      exact Nat.le_of_not_lt (fun hlt => hne (Nat.div_eq_of_lt hlt))
    · have := Option.some.inj hde
      omega

/-- the refund arm's time condition, by C16.1 and `deadline_readback`:
    accepted ⇔ `t ≥ deadline ∧ (thr ≤ 0 ∨ t − now < thr)` -/
theorem refund_time_condition (t now thr d : Int) (h : 0 ≤ d) :
    C16.tsAccept t now thr (intToBytes d) = decide (d ≤ t ∧ (thr ≤ 0 ∨ t - now < thr)) := by
  unfold C16.tsAccept
  rw [deadline_readback d h]

variable {P : Type} [AddCommGroup P] (G : P) (L : ℕ) (hL : L • G = 0)

include hL in
/-- PTLC claim: the witness signs with scalar `(x + t) mod L`, whose public point is the
    lock's claim key `X + T` -/
theorem ptlc_claim_scalar (x t : ℕ) : ((x + t) % L) • G = x • G + t • G :=
  taproot_keyspend_scalar G L hL x t

include hL in
/-- … and is the secret of no claim key made with a different tweak point -/
theorem ptlc_claim_scalar_wrong_tweak (x t : ℕ) (T' : P) (hT : t • G ≠ T') :
    ((x + t) % L) • G ≠ x • G + T' := by
  rw [ptlc_claim_scalar G L hL]
  intro h
  exact hT (add_left_cancel h)

include hL in
/-- without the tweak scalar the receiver's own key does not open a tweaked lock (`T ≠ 0`) -/
theorem ptlc_receiver_alone_insufficient (x : ℕ) (T : P) (hT : T ≠ 0) :
    (x % L) • G ≠ x • G + T := by
  rw [smul_mod G L hL]
  intro h
  apply hT
  have : x • G + 0 = x • G + T := by rw [add_zero]; exact h
  exact (add_left_cancel this).symm

/-- Non-vacuity: the deadline boundary — with deadline 1010 a refund at t = 1010 passes the time
    condition and t = 1009 does not. -/
example : C16.tsAccept 1010 1000 60 (intToBytes 1010) = true ∧
          C16.tsAccept 1009 1000 60 (intToBytes 1010) = false := by decide

example : (natOfBytesBE (intToBytes (2 ^ 31)) : Int) = 2 ^ 31 := deadline_readback _ (by decide)

end TV.C15
