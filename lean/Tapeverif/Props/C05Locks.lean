import Tapeverif.Props.C05
import Tapeverif.Props.C13Locks
/-!
# C05 — the taproot lock, script path that matches

`Props/C05.lean` has the key path and the mismatching script path of the lock
`push <root> taproot <flags>`. Here: a (script, key) pair that recomputes to the root makes the
lock evaluate the script on the remaining stack, and the lock ends with exactly the script's own
outcome — its final stack or its error.
-/
namespace TV.C05
open Instr Tools

variable (H : Hashes) (C : Curve)

set_option maxHeartbeats 800000 in
/-- **C05, the lock, script path, a pair that recomputes to the root.** -/
theorem tapLock_scriptpath_match (cfg : Cfg) (hev : cfg.disallowEval = false) (root pubkey script : Bytes) (flags : Nat)
    (st : List Bytes) (sh : Shared) (count : Nat) (rL : Res)
    (hroot : root.length = 32) (hpk : pubkey.length = 32)
    (hrc : recompute H C pubkey script = .ok root)
    (hs : sh.stack = pubkey :: script :: st) (hr : sh.returned = false)
    (hscr : script.length ≤ cfg.lim.maxItemSize) (hne : script ≠ [])
    (h32 : 32 ≤ cfg.lim.maxItemSize) (hroom : st.length + 3 ≤ cfg.lim.maxItems) (hcnt : count < cfg.lim.callLimit)
    (hL : TSteps (instrTable H C cfg) cfg.lim (evalFrame script count (copyDict { sh with stack := st } 0).1)
            (copyDict { sh with stack := st } 0).2 rL) :
    Ends (instrTable H C cfg) cfg.lim (topFrame (tapLock root flags) count) sh
      (fun r => Res.summary r = Res.summary rL) := by
  unfold topFrame tapLock
  generalize hl : (pushB root ++ (opc 91 ++ opc flags)).length = len
  have hcap : len < len + 1 := by omega
  refine Ends.step (fun r h => run_pushB H C cfg _ sh root _ r (by omega) (by omega) rfl hcap hr (by omega) (by rw [hs]; simp; omega) h) ?_
  dsimp only
  have hE := eval_done cfg hev (instrTable H C cfg)
    { rest := [], count := count, fn := none, dict := 0, len0 := len, cap := len + 1 }
    { sh with stack := script :: st } script st rL rfl hne (by simpa [getCount] using hcnt) (by simpa [getCount] using hL)
  have hm := taproot_script_match H C cfg (instrTable H C cfg) .done
    { rest := [UInt8.ofNat flags], count := count, fn := none, dict := 0, len0 := len, cap := len + 1 }
    { sh with stack := root :: sh.stack } (UInt8.ofNat flags) [] root pubkey script st _ rfl (by simp [hs]) hroot hpk hrc hscr (by omega) hE
  refine ⟨_, tape_single _ _ 91 _ _ rfl cfg.evalReturn rL (by simp [opc]) hcap hr hm, ?_⟩
  exact TV.C13.summary_wrapEval _ _ _

end TV.C05
