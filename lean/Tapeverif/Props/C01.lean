import Tapeverif.Lemmas.VMRun
/-! # C01 — the authorization verdict is exact; a witness cannot truncate or skip the lock

For an arbitrary op table. -/
namespace TV.C01

variable (T : UInt8 → Op) (L : Limits)

/-- C01.1 `run_auth_scripts` is true exactly when the whole list ran without an error and the
    stack then holds exactly one item equal to 0xff; it is a total Boolean function (the
    model-level "never raises"). -/
theorem runAuth_true_iff (fuel : Nat) (scripts : List Bytes) (cache : List (CKey × CVal)) :
    runAuth T L fuel scripts cache = true ↔
      ∃ fr sh, runAuthRes T L fuel scripts cache = .ok fr sh ∧ sh.stack = [[0xff]] := by
  unfold runAuth
  constructor
  · intro h
    split at h
    · next fr sh heq => exact ⟨fr, sh, heq, by simpa using h⟩
    · cases h
  · rintro ⟨fr, sh, heq, hs⟩
    rw [heq]; simp [hs]

/-- C01.2 if the list is authorized, every script of it was run from its first byte, in a
    fresh top-level frame on the shared state, and ran to its own end (`rest = []`):
    unfolding one script of the chain. -/
theorem auth_chain_step (fuel : Nat) (s : Bytes) (rest : List Bytes) (count : Nat) (sh : Shared)
    (fr' : Frame) (sh' : Shared)
    (h : runAuthRest T L fuel (s :: rest) count sh = .ok fr' sh') :
    ∃ fr1 sh1, runTape T L fuel (topFrame s count) { sh with returned := false } = .ok fr1 sh1 ∧
      (topFrame s count).rest = s ∧ fr1.rest = [] ∧
      runAuthRest T L fuel rest fr1.count sh1 = .ok fr' sh' := by
  simp only [runAuthRest] at h
  split at h
  · cases h
  · next fr1 sh1 heq =>
    exact ⟨fr1, sh1, heq, rfl, runTape_ok_rest T L fuel _ _ _ _ heq, h⟩

/-- C01.2' an error in any script makes the verdict false. -/
theorem auth_false_of_script_error (fuel : Nat) (s : Bytes) (rest : List Bytes) (count : Nat)
    (sh : Shared) (e : Err) (sh1 : Shared)
    (h : runTape T L fuel (topFrame s count) { sh with returned := false } = .err e sh1) :
    runAuthRest T L fuel (s :: rest) count sh = .err e sh1 := by
  simp only [runAuthRest, h]

/-- C01.3 a RETURN executed by an earlier script (at any depth) cannot reach a later one:
    the later scripts' run does not depend on the incoming flag. -/
theorem later_scripts_ignore_returned (fuel : Nat) (scripts : List Bytes) (count : Nat)
    (sh : Shared) (b : Bool) (hne : scripts ≠ []) :
    runAuthRest T L fuel scripts count { sh with returned := b } =
    runAuthRest T L fuel scripts count sh := by
  cases scripts with
  | nil => exact absurd rfl hne
  | cons s rest => simp only [runAuthRest]

/-- C01.4 return hygiene: in every authorization run no instruction of any frame — at any
    nesting depth, in any script of the list — is ever fetched while a RETURN is pending
    (the ghost assertion in `runTape` never fires), so a RETURN is pending only between the
    RETURN and the end of the function / evaluated script / top-level script it ends. -/
theorem no_fetch_with_return_pending (fuel : Nat) (scripts : List Bytes) (cache : List (CKey × CVal)) :
    (runAuthRes T L fuel scripts cache).isGhost = false :=
  (runAuthRest_post T L fuel scripts 0 _ (initShared_inv L cache)).2.2

theorem no_fetch_with_return_pending_tape (fuel : Nat) (fr : Frame) (sh : Shared)
    (hi : StackInv L sh) (hr : sh.returned = false) :
    (runTape T L fuel fr sh).isGhost = false :=
  (post_shared L (runTape_post T L fuel fr sh hi hr)).2.2

/-- and the ghost assertion is a genuine check: started with the flag set, a fetch trips it
    (so the theorem above is not vacuous). -/
example : (runTape (fun _ => .done) ⟨4, 4, 4⟩ 3 (topFrame [1] 0)
    { (default : Shared) with returned := true }).isGhost = true := by rfl

end TV.C01
