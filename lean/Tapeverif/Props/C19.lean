import Mathlib.Data.List.Induction
import Tapeverif.Model.Registry
import Tapeverif.Model.Auth
/-! # C19 — registries behave as sets; runs do not leak state -/
namespace TV.C19

open Registry

/-- invariant + refinement, for every reachable registry state: no entry is listed twice, and
    an entry is listed iff the set specification says it is active -/
theorem run_refines_spec (ops : List ROp) :
    (∀ s, (run ops s).Nodup) ∧ (∀ s e, e ∈ run ops s ↔ specActive ops.reverse s e = true) := by
  induction ops using List.reverseRecOn with
  | nil => exact ⟨fun _ => List.nodup_nil, fun _ _ => by simp [run, init, specActive]⟩
  | append_singleton ops op ih =>
    obtain ⟨hnd, hmem⟩ := ih
    have hrun : run (ops ++ [op]) = step (run ops) op := by simp [run, List.foldl_append]
    rw [hrun, List.reverse_append, List.reverse_singleton, List.singleton_append]
    cases op with
    | add s0 e0 =>
      constructor
      · intro s
        simp only [step]
        split
        · next h =>
          subst h
          split
          · exact hnd _
          · next hne =>
            rw [List.nodup_append]
            refine ⟨hnd _, by simp, ?_⟩
            intro a ha b hb
            simp only [List.mem_singleton] at hb
            subst hb
            exact fun h => hne (h ▸ ha)
        · exact hnd _
      · intro s e
        simp only [step, specActive]
        by_cases hs : s = s0
        · subst hs
          simp only [↓reduceIte, true_and]
          by_cases he : e0 = e
          · subst he
            simp only [↓reduceIte]
            split <;> simp_all
          · simp only [he, ↓reduceIte]
            rw [← hmem]
            split
            · rfl
            · simp [Ne.symm he]
        · have hs' : ¬ s0 = s := fun h => hs h.symm
          simp only [hs, ↓reduceIte, hs', false_and]
          exact hmem _ _
    | remove s0 e0 =>
      constructor
      · intro s
        simp only [step]
        split
        · next h => subst h; exact (hnd _).erase _
        · exact hnd _
      · intro s e
        simp only [step, specActive]
        by_cases hs : s = s0
        · subst hs
          simp only [↓reduceIte, true_and]
          by_cases he : e0 = e
          · subst he
            simp only [↓reduceIte, Bool.false_eq_true, iff_false]
            exact (hnd s).not_mem_erase
          · simp only [he, ↓reduceIte]
            rw [← hmem]
            exact List.mem_erase_of_ne (Ne.symm he)
        · have hs' : ¬ s0 = s := fun h => hs h.symm
          simp only [hs, ↓reduceIte, hs', false_and]
          exact hmem _ _
    | reset s0 =>
      constructor
      · intro s
        simp only [step]
        split
        · exact List.nodup_nil
        · exact hnd _
      · intro s e
        simp only [step, specActive]
        by_cases hs : s = s0
        · subst hs; simp
        · have hs' : ¬ s0 = s := fun h => hs h.symm
          simp only [hs, ↓reduceIte, hs']
          exact hmem _ _

/-- an operation on one scope leaves every other scope's registry unchanged -/
theorem scopes_independent (st : State) (op : ROp) (s : Nat)
    (h : match op with | .add s' _ => s' ≠ s | .remove s' _ => s' ≠ s | .reset s' => s' ≠ s) :
    step st op s = st s := by
  cases op <;> simp only [step] <;> simp_all [Ne.symm]

/-- runs have no history by type: the result of running scripts is a function of the arguments
    (script list, cache, op table = configuration + registry contents handed to the run) only -/
theorem run_is_function_of_arguments (T : UInt8 → Op) (L : Limits) (fuel : Nat) (scripts : List Bytes)
    (cache : List (CKey × CVal)) (r1 r2 : Bool)
    (h1 : runAuth T L fuel scripts cache = r1) (h2 : runAuth T L fuel scripts cache = r2) : r1 = r2 := by
  rw [← h1, ← h2]

/-- Non-vacuity: add, add again, remove, add in another scope. -/
example : run [.add 0 7, .add 0 7, .add 1 7, .remove 0 7] 0 = [] ∧ run [.add 0 7, .add 0 7, .add 1 7, .remove 0 7] 1 = [7] := by
  decide

end TV.C19
