import Tapeverif.Props.C15
/-! # C16, lock level — the timestamp lock builders executed symbolically

Separate from `Props/C16.lean` because the head-of-tape rules (`Lemmas/RunInstr.lean`) import that file. -/
namespace TV.C16
open Instr Tools

variable (H : Hashes) (C : Curve)

/-- **C16, the after-lock (`push d<ts> check_timestamp`), exact outcome**: the Boolean
    `ts ≤ t ∧ (thr ≤ 0 ∨ t − now < thr)` on the stack, for every non-negative `ts` -/
theorem afterLock_run (cfg : Cfg) (ts : Int) (hts : 0 ≤ ts) (hlen : (intToBytes ts).length ≤ cfg.lim.maxItemSize) (hlen2 : (intToBytes ts).length < 65536)
    (sh : Shared) (count : Nat) (t thr : Int) (hr : sh.returned = false)
    (ht : lookupC tsKey sh.cache = some (.atom (.int t))) (hthr : cfg.tsThreshold = some thr)
    (h1 : 1 ≤ cfg.lim.maxItemSize) (hroom : sh.stack.length < cfg.lim.maxItems) :
    Ends (instrTable H C cfg) cfg.lim (topFrame (timestampAfterLock ts false) count) sh
      (fun r => Res.summary r = .ok (boolBytes (decide (ts ≤ t ∧ (thr ≤ 0 ∨ t - cfg.now < thr))) :: sh.stack)) := by
  have hb : timestampAfterLock ts false = pushB (intToBytes ts) ++ opc CTS := rfl
  rw [hb]
  unfold topFrame
  generalize hl : (pushB (intToBytes ts) ++ opc CTS).length = len
  have hcap : len < len + 1 := by omega
  have hne : intToBytes ts ≠ [] := C10.encode_ne_nil ts
  have hpos : 0 < (intToBytes ts).length := by cases h : intToBytes ts with | nil => exact absurd h hne | cons _ _ => simp
  refine Ends.step (fun r h => run_pushB H C cfg _ sh (intToBytes ts) _ r hpos hlen2 rfl hcap hr hlen hroom h) ?_
  dsimp only
  refine Ends.step (fun r h => run_cts H C cfg _ _ [] (intToBytes ts) sh.stack t thr r (by simp) hcap hr rfl hne ht hthr h1 hroom h) ?_
  dsimp only
  refine ⟨_, TSteps.nil rfl, ?_⟩
  simp only [Res.summary]
  rw [C15.refund_time_condition t cfg.now thr ts hts]

/-- **the verify form**: passes (leaving the stack as it was) exactly in that window, else an error -/
theorem afterLockVerify_run (cfg : Cfg) (ts : Int) (hts : 0 ≤ ts) (hlen : (intToBytes ts).length ≤ cfg.lim.maxItemSize) (hlen2 : (intToBytes ts).length < 65536)
    (sh : Shared) (count : Nat) (t thr : Int) (hr : sh.returned = false)
    (ht : lookupC tsKey sh.cache = some (.atom (.int t))) (hthr : cfg.tsThreshold = some thr)
    (h1 : 1 ≤ cfg.lim.maxItemSize) (hroom : sh.stack.length < cfg.lim.maxItems) :
    Ends (instrTable H C cfg) cfg.lim (topFrame (timestampAfterLock ts true) count) sh
      (fun r => Res.summary r = (if ts ≤ t ∧ (thr ≤ 0 ∨ t - cfg.now < thr) then .ok sh.stack else .error (.user .see))) := by
  have hb : timestampAfterLock ts true = pushB (intToBytes ts) ++ opc CTSV := rfl
  rw [hb]
  unfold topFrame
  generalize hl : (pushB (intToBytes ts) ++ opc CTSV).length = len
  have hcap : len < len + 1 := by omega
  have hne : intToBytes ts ≠ [] := C10.encode_ne_nil ts
  have hpos : 0 < (intToBytes ts).length := by cases h : intToBytes ts with | nil => exact absurd h hne | cons _ _ => simp
  refine Ends.step (fun r h => run_pushB H C cfg _ sh (intToBytes ts) _ r hpos hlen2 rfl hcap hr hlen hroom h) ?_
  dsimp only
  have hcond := C15.refund_time_condition t cfg.now thr ts hts
  by_cases hw : ts ≤ t ∧ (thr ≤ 0 ∨ t - cfg.now < thr)
  · rw [if_pos hw]
    have hacc : tsAccept t cfg.now thr (intToBytes ts) = true := by rw [hcond]; simpa using hw
    refine Ends.step (fun r h => run_ctsv_ok H C cfg _ _ [] (intToBytes ts) sh.stack t thr r (by simp) hcap hr rfl hne ht hthr h1 hroom hacc h) ?_
    dsimp only
    have hsh : ({ sh with stack := sh.stack } : Shared) = sh := by cases sh; rfl
    exact ⟨_, TSteps.nil rfl, by simp [Res.summary]⟩
  · rw [if_neg hw]
    have hacc : tsAccept t cfg.now thr (intToBytes ts) = false := by rw [hcond]; simpa using hw
    exact ⟨_, run_ctsv_fail H C cfg _ _ [] (intToBytes ts) sh.stack t thr (by simp) hcap hr rfl hne ht hthr h1 hroom hacc, rfl⟩

/-- **C16, the before-lock (`push d<ts> check_timestamp not`), exact outcome** — the formal
    statement of known finding K1: the value left is true for `t < ts` *and also* for every `t`
    ahead of the clock by the threshold or more -/
theorem beforeLock_run (cfg : Cfg) (ts : Int) (hts : 0 ≤ ts) (hlen : (intToBytes ts).length ≤ cfg.lim.maxItemSize) (hlen2 : (intToBytes ts).length < 65536)
    (sh : Shared) (count : Nat) (t thr : Int) (hr : sh.returned = false)
    (ht : lookupC tsKey sh.cache = some (.atom (.int t))) (hthr : cfg.tsThreshold = some thr)
    (h1 : 1 ≤ cfg.lim.maxItemSize) (hroom : sh.stack.length < cfg.lim.maxItems) :
    Ends (instrTable H C cfg) cfg.lim (topFrame (timestampBeforeLock ts false) count) sh
      (fun r => ∃ top, Res.summary r = .ok (top :: sh.stack) ∧
        truthy top = decide (t < ts ∨ (thr > 0 ∧ t - cfg.now ≥ thr))) := by
  have hb : timestampBeforeLock ts false = pushB (intToBytes ts) ++ (opc CTS ++ opc NOT) := by
    simp [timestampBeforeLock, Tools.pushInt, pushB, List.append_assoc]
  rw [hb]
  unfold topFrame
  generalize hl : (pushB (intToBytes ts) ++ (opc CTS ++ opc NOT)).length = len
  have hcap : len < len + 1 := by omega
  have hne : intToBytes ts ≠ [] := C10.encode_ne_nil ts
  have hpos : 0 < (intToBytes ts).length := by cases h : intToBytes ts with | nil => exact absurd h hne | cons _ _ => simp
  refine Ends.step (fun r h => run_pushB H C cfg _ sh (intToBytes ts) _ r hpos hlen2 rfl hcap hr hlen hroom h) ?_
  dsimp only
  refine Ends.step (fun r h => run_cts H C cfg _ _ (opc NOT) (intToBytes ts) sh.stack t thr r rfl hcap hr rfl hne ht hthr h1 hroom h) ?_
  dsimp only
  refine Ends.step (fun r h => run_not H C cfg _ _ [] (boolBytes (tsAccept t cfg.now thr (intToBytes ts))) sh.stack r (by simp) hcap hr rfl
    (by cases tsAccept t cfg.now thr (intToBytes ts) <;> simp [boolBytes] <;> omega) hroom h) ?_
  dsimp only
  refine ⟨_, TSteps.nil rfl, _, rfl, ?_⟩
  rw [notBytes_bool, beforeLock_value_iff]
  have : (natOfBytesBE (intToBytes ts) : Int) = ts := C15.deadline_readback ts hts
  rw [this]

set_option maxHeartbeats 800000 in
/-- **C16, the between-lock (`push d<b> check_timestamp_verify push d<e> check_timestamp not`), exact
    outcome**: unlike the bare before-lock (K1), its first clause already refuses a timestamp ahead of
    the clock, so what it leaves is true exactly for `b ≤ t < e` within the slack; outside
    `b ≤ t ∧ slack` it ends in the VERIFY error -/
theorem betweenLock_run (cfg : Cfg) (b e : Int) (hb0 : 0 ≤ b) (he0 : 0 ≤ e)
    (hlb : (intToBytes b).length ≤ cfg.lim.maxItemSize) (hlb2 : (intToBytes b).length < 65536)
    (hle : (intToBytes e).length ≤ cfg.lim.maxItemSize) (hle2 : (intToBytes e).length < 65536)
    (sh : Shared) (count : Nat) (t thr : Int) (hr : sh.returned = false)
    (ht : lookupC tsKey sh.cache = some (.atom (.int t))) (hthr : cfg.tsThreshold = some thr)
    (h1 : 1 ≤ cfg.lim.maxItemSize) (hroom : sh.stack.length < cfg.lim.maxItems) :
    Ends (instrTable H C cfg) cfg.lim (topFrame (timestampBetweenLock b e false) count) sh
      (fun r => if b ≤ t ∧ (thr ≤ 0 ∨ t - cfg.now < thr)
                then ∃ top, Res.summary r = .ok (top :: sh.stack) ∧ truthy top = decide (t < e)
                else Res.summary r = .error (.user .see)) := by
  have hbytes : timestampBetweenLock b e false =
      pushB (intToBytes b) ++ (opc CTSV ++ (pushB (intToBytes e) ++ (opc CTS ++ opc NOT))) := by
    simp [timestampBetweenLock, timestampAfterLock, timestampBeforeLock, Tools.pushInt, pushB, List.append_assoc]
  rw [hbytes]
  unfold topFrame
  generalize hl : (pushB (intToBytes b) ++ (opc CTSV ++ (pushB (intToBytes e) ++ (opc CTS ++ opc NOT)))).length = len
  have hcap : len < len + 1 := by omega
  have hneb : intToBytes b ≠ [] := C10.encode_ne_nil b
  have hposb : 0 < (intToBytes b).length := by cases h : intToBytes b with | nil => exact absurd h hneb | cons _ _ => simp
  have hnee : intToBytes e ≠ [] := C10.encode_ne_nil e
  have hpose : 0 < (intToBytes e).length := by cases h : intToBytes e with | nil => exact absurd h hnee | cons _ _ => simp
  refine Ends.step (fun r h => run_pushB H C cfg _ sh (intToBytes b) _ r hposb hlb2 rfl hcap hr hlb hroom h) ?_
  dsimp only
  have hcond := C15.refund_time_condition t cfg.now thr b hb0
  by_cases hw : b ≤ t ∧ (thr ≤ 0 ∨ t - cfg.now < thr)
  · have hacc : tsAccept t cfg.now thr (intToBytes b) = true := by rw [hcond]; simpa using hw
    refine Ends.step (fun r h => run_ctsv_ok H C cfg _ _ (pushB (intToBytes e) ++ (opc CTS ++ opc NOT)) (intToBytes b) sh.stack t thr r rfl hcap hr rfl hneb ht hthr h1 hroom hacc h) ?_
    dsimp only
    refine Ends.step (fun r h => run_pushB H C cfg _ _ (intToBytes e) _ r hpose hle2 rfl hcap hr hle hroom h) ?_
    dsimp only
    refine Ends.step (fun r h => run_cts H C cfg _ _ (opc NOT) (intToBytes e) sh.stack t thr r rfl hcap hr rfl hnee ht hthr h1 hroom h) ?_
    dsimp only
    refine Ends.step (fun r h => run_not H C cfg _ _ [] (boolBytes (tsAccept t cfg.now thr (intToBytes e))) sh.stack r (by simp) hcap hr rfl
      (by cases tsAccept t cfg.now thr (intToBytes e) <;> simp [boolBytes] <;> omega) hroom h) ?_
    dsimp only
    refine ⟨_, TSteps.nil rfl, ?_⟩
    show (if b ≤ t ∧ (thr ≤ 0 ∨ t - cfg.now < thr) then _ else _)
    rw [if_pos hw]
    refine ⟨_, rfl, ?_⟩
    rw [notBytes_bool, beforeLock_value_iff]
    have : (natOfBytesBE (intToBytes e) : Int) = e := C15.deadline_readback e he0
    rw [this]
    have hiff : (t < e ∨ (thr > 0 ∧ t - cfg.now ≥ thr)) ↔ t < e := by
      constructor
      · rintro (h | ⟨h1, h2⟩)
        · exact h
        · rcases hw.2 with h0 | h0 <;> omega
      · exact Or.inl
    exact decide_eq_decide.mpr hiff
  · have hacc : tsAccept t cfg.now thr (intToBytes b) = false := by rw [hcond]; simpa using hw
    refine ⟨_, run_ctsv_fail H C cfg _ _ (pushB (intToBytes e) ++ (opc CTS ++ opc NOT)) (intToBytes b) sh.stack t thr rfl hcap hr rfl hneb ht hthr h1 hroom hacc, ?_⟩
    show (if b ≤ t ∧ (thr ≤ 0 ∨ t - cfg.now < thr) then _ else _)
    rw [if_neg hw]
    rfl

end TV.C16
