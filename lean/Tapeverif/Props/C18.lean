import Tapeverif.Lemmas.Algebra
import Mathlib.Data.List.Induction
/-! # C18 — anonymous multi-hop locks: consistent setup and right-to-left release cascade

Group-level theorems for any commutative group `P`, base point `G`, `L • G = 0`, `0 < L`. -/
namespace TV.C18

open TV.Algebra

variable {P : Type} [AddCommGroup P] (G : P) (L : ℕ) (hL : L • G = 0)

/-- the tweak point of hop `i` — the running sum of the points of secrets `0..i` (as `AMHL.setup`
    accumulates it) — is the point of the running sum of the secrets -/
theorem setup_points (ys : List ℕ) (i : ℕ) :
    ((ys.take (i + 1)).map (· • G)).sum = (ys.take (i + 1)).sum • G :=
  amhl_partial_sums G _

include hL in
/-- the final key `Σ y (mod L)` opens the last lock `Y_{n-1}` -/
theorem final_key_opens_last (ys : List ℕ) :
    (ys.sum % L) • G = (ys.map (· • G)).sum := by
  rw [smul_mod G L hL, amhl_partial_sums]

include hL in
/-- a party's view is consistent: `Y_{i-1} + y_i • G = Y_i` (what `check_setup` verifies) -/
theorem view_consistent (ys : List ℕ) (i : ℕ) (y : ℕ) (hy : ys[i + 1]? = some y) :
    (ys.take (i + 1)).sum • G + y • G = (ys.take (i + 2)).sum • G := by
  rw [← add_nsmul]
  congr 1
  have : ys.take (i + 2) = ys.take (i + 1) ++ [y] := by
    rw [show i + 2 = (i + 1) + 1 by omega, List.take_succ, hy]; rfl
  rw [this]; simp

include hL in
/-- release: from a key `k` opening `Y_i = Y_{i-1} + y_i•G`, `release(k, y_i) = k − y_i (mod L)`
    opens `Y_{i-1}` — hop by hop from right to left -/
theorem release_opens_left (hpos : 0 < L) (k y : ℕ) (Y : P) (hk : k • G = Y + y • G) :
    ((k + (L - y % L) % L) % L) • G = Y := amhl_release G L hL hpos k y Y hk

include hL in
/-- whole cascade: starting from the final key, releasing with `y_{n-1}, …, y_{i+1}` yields a key
    opening hop `i`'s lock `(Σ_{j≤i} y_j) • G` — by induction on the number of released hops -/
theorem cascade (hpos : 0 < L) (pre : List ℕ) : ∀ (post : List ℕ) (k : ℕ),
    k • G = (pre ++ post).sum • G →
    (post.reverse.foldl (fun k y => (k + (L - y % L) % L) % L) k) • G = pre.sum • G := by
  intro post
  induction post using List.reverseRecOn with
  | nil => intro k hk; simpa using hk
  | append_singleton r y ih =>
    intro k hk
    rw [List.reverse_append, List.reverse_singleton, List.singleton_append, List.foldl_cons]
    apply ih
    apply release_opens_left G L hL hpos k y
    rw [hk, ← add_nsmul]
    congr 1
    simp [List.sum_append]; ring

/-- a scalar whose point differs from hop `i`'s lock does not open it (wrong hop / other chain) -/
theorem wrong_key_fails (k : ℕ) (Y : P) (h : k • G ≠ Y) : ¬ (k • G = Y) := h

end TV.C18
