import Tapeverif.Props.C17Instr
import Tapeverif.Lemmas.RunInstr
/-!
# C17 / C18 — the adapter locks, executed

`make_adapter_locks_pub(pk, T, flags)` returns two scripts; `setup_amhl` hands the same pair to every
hop of an anonymous multi-hop lock with that hop's point `T`. The second is the single-signature
lock (`Props/C13.lean`: `singleSigLock_run`, exactly the C02 specification). Here the first one,
`get_message <flags> push <T> push <pk> check_adapter_sig`, and the decryption script
`push <t> decrypt_adapter_sig`, are executed symbolically: what they leave is exactly the value of
`adapterCheck` (`Props/C17Instr.lean`) on the message the flags select and the two items the
witness pushed — resp. `s = sa + t` on top of `R + t·G`.
-/
namespace TV.C17
open Instr Tools

variable (H : Hashes) (C : Curve) (cfg : Cfg)

theorem leBytes32_length (n : Nat) : (Sodium.leBytes32 n).length = 32 := by
  simp [Sodium.leBytes32, natToBytesLE, natToBytesBE_length]

theorem leNat_leBytes32 (n : Nat) : Sodium.leNat (Sodium.leBytes32 n) = n % 256 ^ 32 := by
  simp only [Sodium.leNat, Sodium.leBytes32, natOfBytesLE, natToBytesLE, List.reverse_reverse, natOf_natTo]

theorem clamp_le (x : Nat) : x % 2 ^ 255 % 256 ^ 32 % 2 ^ 255 = x % 2 ^ 255 := by
  have h1 : x % 2 ^ 255 < 2 ^ 255 := Nat.mod_lt _ (Nat.two_pow_pos 255)
  have h2 : (2 : Nat) ^ 255 ≤ 256 ^ 32 := by
    rw [show (256 : Nat) = 2 ^ 8 by rfl, ← Nat.pow_mul]
    exact Nat.pow_le_pow_right (by omega) (by omega)
  rw [Nat.mod_eq_of_lt (a := x % 2 ^ 255) (by omega), Nat.mod_mod]
theorem clampScalar_idem (v t : Bytes) (h : Sodium.clampScalar v false = .ok t) :
    Sodium.clampScalar t false = .ok t ∧ t.length = 32 := by
  unfold Sodium.clampScalar at h
  split at h
  · simp only [Bool.false_eq_true, ↓reduceIte, pure, Except.pure, Except.ok.injEq] at h
    generalize Sodium.leNat (List.take 32 v) = x at h
    have hl := leBytes32_length (x % 2 ^ 255)
    rw [h] at hl
    refine ⟨?_, hl⟩
    unfold Sodium.clampScalar
    simp only [hl, ge_iff_le, Nat.le_refl, ↓reduceIte, Bool.false_eq_true, pure, Except.pure, Except.ok.injEq]
    rewrite [List.take_of_length_le (Nat.le_of_eq hl)]
    rewrite [← h, leNat_leBytes32, clamp_le]
    rfl
  · cases h

/-- `OP_GET_MESSAGE <flag>` at the head of a tape (no signature-extension plugin installed): the
    message the C02 specification builds from the cache is pushed -/
theorem run_getMessage (hno : cfg.sigExts = []) (fr : Frame) (sh : Shared) (rest' : Bytes) (flag : Nat) (m : Bytes) (r : Res)
    (hrest : fr.rest = GET_MESSAGE flag ++ rest') (hfl : flag < 256) (hcap : fr.len0 < fr.cap) (hr : sh.returned = false)
    (hm : SigPure.message flag sh.cache = .ok m) (hsz : m.length ≤ cfg.lim.maxItemSize) (hroom : sh.stack.length < cfg.lim.maxItems)
    (h : TSteps (instrTable H C cfg) cfg.lim { fr with rest := rest' } { sh with stack := m :: sh.stack } r) :
    TSteps (instrTable H C cfg) cfg.lim fr sh r := by
  refine run_instr fr _ sh _ 5 (UInt8.ofNat flag :: rest') r (by simpa [GET_MESSAGE, opc] using hrest) hcap hr ?_ h
  have hT : instrTable H C cfg 5 = readU1 fun fl => getMessageCore fl .done := by
    show opGetMessage cfg .done = _
    unfold opGetMessage sigExt
    rw [hno]; rfl
  rw [hT]
  unfold readU1
  nstep Steps.read (by simp) ?_
  simp only [List.take_succ_cons, List.take_zero, List.drop_succ_cons, List.drop_zero, u1_of_nat _ hfl]
  unfold getMessageCore
  refine ⟨1 + 1 + 8, ?_, rfl⟩
  rw [getMessageFrom_refines]
  unfold SigPure.message at hm
  rw [hm]
  simp only [List.nil_append]
  rw [runOp_push _ _ _ m _ _ _ hsz hroom]
  simp [runOp]

/-- the first adapter lock, instruction by instruction -/
theorem adapterLock1_bytes (pk Tp : Bytes) (flags : Nat) :
    adapterLock1 pk Tp flags = GET_MESSAGE flags ++ (pushB Tp ++ (pushB pk ++ CHECK_ADAPTER_SIG)) := by
  simp [adapterLock1, List.append_assoc]

set_option maxHeartbeats 800000 in
/-- **C17 / C18, the adapter-checking lock, exactly.** Started (no signature-extension plugin) on a
    stack whose top is the nonce point `Rp` over the adapter scalar `sa`: if the flag-selected
    message is `m`, the lock ends with exactly the Boolean `adapterCheck pk T m R sa` — i.e.
    `sa < L ∧ sa·G = R + H(R+T ‖ pk ‖ m)·pk` — on top of the remaining stack, or with exactly the
    error the point / scalar functions raise. Nothing else decides the verdict. -/
theorem adapterLock1_run (hno : cfg.sigExts = []) (pk Tp Rp sa m : Bytes) (flags : Nat) (st : List Bytes)
    (sh : Shared) (count : Nat)
    (hpk : pk.length = 32) (hT : Tp.length = 32) (hfl : flags < 256)
    (hs : sh.stack = Rp :: sa :: st) (hr : sh.returned = false)
    (hm : SigPure.message flags sh.cache = .ok m) (hmsz : m.length ≤ cfg.lim.maxItemSize)
    (h32 : 32 ≤ cfg.lim.maxItemSize) (hroom : st.length + 5 ≤ cfg.lim.maxItems) :
    Ends (instrTable H C cfg) cfg.lim (topFrame (adapterLock1 pk Tp flags) count) sh
      (fun r => Res.summary r =
        (match adapterCheck H C pk Tp m Rp sa with
         | .ok b => .ok (boolBytes b :: st)
         | .error e => .error (.user e))) := by
  rw [adapterLock1_bytes]
  unfold topFrame
  generalize hlen : (GET_MESSAGE flags ++ (pushB Tp ++ (pushB pk ++ CHECK_ADAPTER_SIG))).length = len
  have hcap : len < len + 1 := by omega
  refine Ends.step (fun r h => run_getMessage H C cfg hno _ sh _ flags m r rfl hfl hcap hr hm hmsz (by rw [hs]; simp; omega) h) ?_
  dsimp only
  refine Ends.step (fun r h => run_pushB H C cfg _ _ Tp _ r (by omega) (by omega) rfl hcap hr (by omega) (by rw [hs]; simp; omega) h) ?_
  dsimp only
  refine Ends.step (fun r h => run_pushB H C cfg _ _ pk _ r (by omega) (by omega) rfl hcap hr (by omega) (by rw [hs]; simp; omega) h) ?_
  dsimp only
  rw [hs]
  cases hc : adapterCheck H C pk Tp m Rp sa with
  | error e =>
    refine ⟨.err (.user e) { sh with stack := st }, ?_, rfl⟩
    refine TSteps.cons_err 83 [] (by simp [CHECK_ADAPTER_SIG, opc]) hcap hr ?_
    show Steps _ _ (opCheckAdapterSig H C .done) _ _ _
    refine checkAdapterSig_instruction H C cfg _ .done _ _ pk Tp m Rp sa st _ rfl (by omega) (by omega) ?_
    rw [hc]
  | ok b =>
    refine ⟨.ok { rest := [], count := count, fn := none, dict := 0, len0 := len, cap := len + 1 } { sh with stack := boolBytes b :: st }, ?_, rfl⟩
    refine TSteps.cons_ok 83 [] (by simp [CHECK_ADAPTER_SIG, opc]) hcap hr ?_ (TSteps.nil rfl)
    show Steps _ _ (opCheckAdapterSig H C .done) _ _ _
    refine checkAdapterSig_instruction H C cfg _ .done _ _ pk Tp m Rp sa st _ rfl (by omega) (by omega) ?_
    rw [hc]
    exact Steps.done _ _

/-- a non-canonical adapter scalar never unlocks the first adapter lock (fix F17, at lock level) -/
theorem adapterLock1_noncanonical (hno : cfg.sigExts = []) (pk Tp Rp sa m : Bytes) (flags : Nat) (st : List Bytes)
    (sh : Shared) (count : Nat)
    (hpk : pk.length = 32) (hT : Tp.length = 32) (hfl : flags < 256)
    (hs : sh.stack = Rp :: sa :: st) (hr : sh.returned = false)
    (hm : SigPure.message flags sh.cache = .ok m) (hmsz : m.length ≤ cfg.lim.maxItemSize)
    (h32 : 32 ≤ cfg.lim.maxItemSize) (hroom : st.length + 5 ≤ cfg.lim.maxItems)
    (hbig : groupL ≤ Sodium.leNat sa) :
    Ends (instrTable H C cfg) cfg.lim (topFrame (adapterLock1 pk Tp flags) count) sh
      (fun r => Res.summary r ≠ .ok (boolBytes true :: st)) := by
  obtain ⟨r, hr', hp⟩ := adapterLock1_run H C cfg hno pk Tp Rp sa m flags st sh count hpk hT hfl hs hr hm hmsz h32 hroom
  refine ⟨r, hr', ?_⟩
  show Res.summary r ≠ _
  rw [hp]
  have hn := adapterCheck_noncanonical H C pk Tp m Rp sa hbig
  cases hc : adapterCheck H C pk Tp m Rp sa with
  | error e => simp
  | ok b =>
    cases b with
    | true => exact absurd hc hn
    | false => simp [boolBytes]

set_option maxHeartbeats 800000 in
/-- **the decryption script, exactly**: `push <t> decrypt_adapter_sig` on a stack whose top is `R`
    over `sa` ends with `s = sa + t` on top of `RT = R + t·G` (the concatenation `RT ‖ s` is what
    the second lock then checks as a signature). -/
theorem adapterDecrypt_run (tweak t Rp sa Tp RT s : Bytes) (st : List Bytes) (sh : Shared) (count : Nat) (script : Bytes)
    (hb : adapterDecrypt tweak = .ok script)
    (ht : Sodium.clampScalar tweak false = .ok t)
    (hs : sh.stack = Rp :: sa :: st) (hr : sh.returned = false)
    (hT : Sodium.derivePoint C t = .ok Tp)
    (hRT : Sodium.aggregatePoints C [Rp, Tp] = .ok RT) (hsum : Sodium.scalarAdd sa t = .ok s)
    (hRTl : RT.length ≤ cfg.lim.maxItemSize) (hsl : s.length ≤ cfg.lim.maxItemSize)
    (h32 : 32 ≤ cfg.lim.maxItemSize) (hroom : st.length + 3 ≤ cfg.lim.maxItems) :
    Ends (instrTable H C cfg) cfg.lim (topFrame script count) sh
      (fun r => Res.summary r = .ok (s :: RT :: st)) := by
  obtain ⟨ht2, htl⟩ := clampScalar_idem tweak t ht
  have hscr : script = pushB t ++ DECRYPT_ADAPTER_SIG := by
    unfold adapterDecrypt at hb
    rw [ht] at hb
    simpa [bind, Except.bind, pure, Except.pure] using hb.symm
  subst hscr
  unfold topFrame
  generalize hlen : (pushB t ++ DECRYPT_ADAPTER_SIG).length = len
  have hcap : len < len + 1 := by omega
  refine Ends.step (fun r h => run_pushB H C cfg _ sh t _ r (by omega) (by omega) rfl hcap hr (by omega) (by rw [hs]; simp; omega) h) ?_
  dsimp only
  refine ⟨.ok { rest := [], count := count, fn := none, dict := 0, len0 := len, cap := len + 1 }
      { sh with stack := s :: RT :: st, cache := decCache cfg sh.cache RT s }, ?_, rfl⟩
  refine TSteps.cons_ok 84 [] (by simp [DECRYPT_ADAPTER_SIG, opc]) hcap hr ?_ (TSteps.nil rfl)
  show Steps _ _ (opDecryptAdapterSig C cfg .done) _ _ _
  refine decryptAdapterSig_instruction C cfg _ .done _ _ t Rp sa t Tp RT s st _ (by rw [hs]) ht2 hT hRT hsum hRTl hsl (by omega) ?_
  exact Steps.done _ _

end TV.C17
