import Tapeverif.Lemmas.VMRun
/-! # C07 — stack, item-size, call-depth, loop and tape limits

All theorems are for an **arbitrary op table** `T`: they hold for every instruction that can
be written in the `Op` vocabulary, hence for the 92 instructions of `Model/Instr.lean` and
for anything added later. Whether the Python instruction *is* its `Op` term is what the
correspondence check decides. -/
namespace TV.C07

variable (T : UInt8 → Op) (L : Limits)

/-- C07.1 the stack never holds more than `maxItems` items or an item longer than
    `maxItemSize`: on every outcome of every script run — successful or failed, and
    with the state *at the point of failure* for failed ones. -/
theorem stack_limits_script (fuel : Nat) (script : Bytes) (cache : List (CKey × CVal)) :
    StackInv L (runScript T L fuel script cache).shared :=
  (post_shared L (runTape_post T L fuel _ _ (initShared_inv L cache) rfl)).1

theorem stack_limits_auth (fuel : Nat) (scripts : List Bytes) (cache : List (CKey × CVal)) :
    StackInv L (runAuthRes T L fuel scripts cache).shared :=
  (runAuthRest_post T L fuel scripts 0 _ (initShared_inv L cache)).1

/-- … and from any reachable start state, for any frame (nested bodies, called functions,
    evaluated scripts are all runs of `runTape`). -/
theorem stack_limits_tape (fuel : Nat) (fr : Frame) (sh : Shared)
    (hi : StackInv L sh) (hr : sh.returned = false) :
    StackInv L (runTape T L fuel fr sh).shared :=
  (post_shared L (runTape_post T L fuel fr sh hi hr)).1

/-- C07.4 `push` is all-or-nothing: exceeding a limit is a script-execution error and leaves
    the state untouched (no silently dropped item). -/
theorem push_over_limit (fuel : Nat) (b : Bytes) (k : Op) (fr : Frame) (sh : Shared)
    (h : ¬ (b.length ≤ L.maxItemSize ∧ sh.stack.length < L.maxItems)) :
    runOp T L (fuel + 1) (.push b k) fr sh = .err (.user .see) sh := by
  simp only [runOp]
  split
  · split
    · next h1 h2 => exact absurd ⟨h1, h2⟩ h
    · rfl
  · rfl

/-- C07.2 an operand read that does not fit is a script-execution error; otherwise it
    consumes exactly `n` bytes forward. -/
theorem read_past_end (fuel n : Nat) (k : Bytes → Op) (fr : Frame) (sh : Shared)
    (h : fr.rest.length < n) :
    runOp T L (fuel + 1) (.read n k) fr sh = .err (.user .see) sh := by
  simp only [runOp]
  split
  · omega
  · rfl

/-- C07.3 a call or evaluation at the limit is a script-execution error -/
theorem call_at_limit (fuel : Nat) (h : UInt8) (k : Op) (fr : Frame) (sh : Shared)
    (hc : ¬ getCount fr sh < L.callLimit) :
    runOp T L (fuel + 1) (.call h k) fr sh = .err (.user .see) sh := by
  simp only [runOp]; simp [hc]

theorem eval_at_limit (fuel : Nat) (p : Bool) (body : Bytes) (k : Op) (fr : Frame) (sh : Shared)
    (hc : ¬ getCount fr sh < L.callLimit) :
    runOp T L (fuel + 1) (.sub (.eval p) body k) fr sh = .err (.user .see) sh := by
  simp only [runOp]; simp [hc]

/-- C07.3 a loop whose iteration budget is used up and whose condition is still true is a
    script-execution error (the budget starts at `callLimit`). -/
theorem loop_budget_exhausted (fuel lc : Nat) (body : Bytes) (k : Op) (fr : Frame) (sh : Shared)
    (top : Bytes) (rest : List Bytes) (hs : sh.stack = top :: rest) (ht : truthy top = true) :
    runLoop T L (fuel + 1) 0 lc body k fr sh = .err (.user .see) sh := by
  simp only [runLoop, hs, ht, ↓reduceIte]

/-- A successful run of any tape consumed the whole tape (no early exit other than RETURN,
    which also ends the frame). -/
theorem run_ok_consumes_tape (fuel : Nat) (fr : Frame) (sh : Shared) (fr' : Frame) (sh' : Shared)
    (h : runTape T L fuel fr sh = .ok fr' sh') : fr'.rest = [] :=
  runTape_ok_rest T L fuel fr sh fr' sh' h

/-- Non-vacuity: a concrete run that hits the item limit. -/
example : runOp (fun _ => .done) ⟨1, 1, 1⟩ 5 (.push [1, 2] .done) default
    { (default : Shared) with stack := [] } = .err (.user .see) { (default : Shared) with stack := [] } := by
  rfl

end TV.C07
