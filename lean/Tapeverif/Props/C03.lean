import Tapeverif.Lemmas.Greedy
import Tapeverif.Model.SigPure
import Tapeverif.Lemmas.MsRefine
/-! # C03 — multisig passes only with m valid signatures from m different listed keys

`SigPure.multisig` is the specification of OP_CHECK_MULTISIG on the popped signature and key
lists (compared with the implementation directly on every run, and with the VM's `Op` term
through the RUN stream). `Hashes` / `Curve` are arbitrary. -/
namespace TV.C03

open SigPure Greedy

variable (H : Hashes) (C : Curve) (mis : Nat) (cache : List (CKey × CVal)) (allowed : Nat)

/-- "signature `s` is valid under key `k`" in the sense of C02 -/
def valid (s k : Bytes) : Bool :=
  match checkSig H C mis cache allowed s k with
  | .ok b => b
  | .error _ => false

/-- every (signature, key) pair is well formed: lengths right, flag permitted, message builds -/
def WellFormed (sigs keys : List Bytes) : Prop :=
  ∀ s ∈ sigs, ∀ k ∈ keys, ∃ b, checkSig H C mis cache allowed s k = .ok b

theorem findKey_eq (s : Bytes) : ∀ (keys : List Bytes),
    (∀ k ∈ keys, ∃ b, checkSig H C mis cache allowed s k = .ok b) →
    findKey H C mis cache allowed s keys = .ok (keys.find? (valid H C mis cache allowed s)) := by
  intro keys
  induction keys with
  | nil => intro _; rfl
  | cons k r ih =>
    intro h
    obtain ⟨b, hb⟩ := h k (by simp)
    simp only [findKey, hb, bind, Except.bind, List.find?_cons, valid]
    cases b with
    | true => rfl
    | false => simpa [valid] using ih (fun k' hk' => h k' (by simp [hk']))

theorem loop_eq : ∀ (sigs keys confirmed : List Bytes),
    WellFormed H C mis cache allowed sigs keys →
    multisigLoop H C mis cache allowed sigs keys confirmed =
      .ok (sigs.foldl (step (valid H C mis cache allowed)) (confirmed, keys)).1 := by
  intro sigs
  induction sigs with
  | nil => intro keys confirmed _; rfl
  | cons s t ih =>
    intro keys confirmed hwf
    simp only [multisigLoop, List.foldl_cons]
    rw [findKey_eq H C mis cache allowed s keys (fun k hk => hwf s (by simp) k hk)]
    simp only [bind, Except.bind]
    cases hf : keys.find? (valid H C mis cache allowed s) with
    | none =>
      simp only [step, hf]
      exact ih keys confirmed (fun s' hs' k hk => hwf s' (by simp [hs']) k hk)
    | some vk =>
      simp only [step, hf]
      exact ih (@List.erase Bytes instBEqOfDecidableEq keys vk) _ (fun s' hs' k hk => hwf s' (by simp [hs']) k (@List.mem_of_mem_erase Bytes instBEqOfDecidableEq _ _ _ hk))

/-- C03.0 on well-formed inputs the instruction's verdict is the greedy matching verdict. -/
theorem multisig_eq_greedy (sigs keys : List Bytes) (hwf : WellFormed H C mis cache allowed sigs keys) :
    multisig H C mis cache allowed sigs keys = .ok (greedy (valid H C mis cache allowed) sigs keys) := by
  unfold multisig
  rw [loop_eq H C mis cache allowed sigs keys [] hwf]
  simp only [bind, Except.bind, greedy, pure, Except.pure]
  cases h : decide ((List.foldl (step (valid H C mis cache allowed)) ([], keys) sigs).fst.length = sigs.length) <;> simp_all

/-- C03.1 soundness, unconditional: a true verdict means the signatures are pairwise distinct
    byte strings and can be matched, in order, each to a *different* listed key under which it is
    valid (`ms` is a sub-multiset of the key list). Hence fewer than m distinct signers never
    pass: a repeated signature, or two signatures valid only under the same single key, cannot
    be matched injectively. -/
theorem multisig_sound (sigs keys : List Bytes) (hwf : WellFormed H C mis cache allowed sigs keys)
    (h : multisig H C mis cache allowed sigs keys = .ok true) :
    sigs.Nodup ∧ ∃ ms, List.Forall₂ (fun s k => valid H C mis cache allowed s k = true) sigs ms ∧
      ms.Subperm keys := by
  rw [multisig_eq_greedy H C mis cache allowed sigs keys hwf] at h
  exact greedy_sound _ sigs keys (by simpa using h)

/-- C03.2 completeness under *unique signer* (a signature is valid under at most one key value —
    an idealisation of Ed25519 stated as a hypothesis): every injective valid assignment of
    pairwise distinct signatures is found, so the verdict is exactly "such a matching exists". -/
theorem multisig_complete (sigs keys ms : List Bytes) (hwf : WellFormed H C mis cache allowed sigs keys)
    (huniq : ∀ s k k', valid H C mis cache allowed s k = true → valid H C mis cache allowed s k' = true → k = k')
    (hnd : sigs.Nodup)
    (hf : List.Forall₂ (fun s k => valid H C mis cache allowed s k = true) sigs ms)
    (hsub : ms.Subperm keys) :
    multisig H C mis cache allowed sigs keys = .ok true := by
  rw [multisig_eq_greedy H C mis cache allowed sigs keys hwf]
  simp [greedy_complete _ huniq sigs keys ms hnd hf hsub]

/-- C03.3 an error (malformed item, non-permitted flag) is never `true`. -/
theorem multisig_error_not_true (sigs keys : List Bytes) (e : ErrKind)
    (h : multisig H C mis cache allowed sigs keys = .error e) :
    multisig H C mis cache allowed sigs keys ≠ .ok true := by
  rw [h]; simp

/-- C03.4 order independence under unique signer: permuting the keys and / or the signatures
    does not change a true verdict. -/
theorem multisig_perm (sigs keys sigs' keys' : List Bytes)
    (hwf : WellFormed H C mis cache allowed sigs keys) (hwf' : WellFormed H C mis cache allowed sigs' keys')
    (huniq : ∀ s k k', valid H C mis cache allowed s k = true → valid H C mis cache allowed s k' = true → k = k')
    (hs : sigs.Perm sigs') (hk : keys.Perm keys')
    (h : multisig H C mis cache allowed sigs keys = .ok true) :
    multisig H C mis cache allowed sigs' keys' = .ok true := by
  obtain ⟨hnd, ms, hf, hsub⟩ := multisig_sound H C mis cache allowed sigs keys hwf h
  -- transport the matching along the permutation of the signatures
  obtain ⟨ms', hp, hf'⟩ : ∃ ms', ms.Perm ms' ∧
      List.Forall₂ (fun s k => valid H C mis cache allowed s k = true) sigs' ms' := by
    clear hsub hnd h hwf hwf'
    induction hs generalizing ms with
    | nil => cases hf; exact ⟨[], .nil, .nil⟩
    | cons x _ ih =>
      cases hf with
      | cons hx ht =>
        obtain ⟨ms', hp, hf'⟩ := ih _ ht
        exact ⟨_ :: ms', hp.cons _, .cons hx hf'⟩
    | swap x y l =>
      cases hf with
      | cons hx ht =>
        cases ht with
        | cons hy ht' => exact ⟨_, .swap _ _ _, .cons hy (.cons hx ht')⟩
    | trans _ _ ih1 ih2 =>
      obtain ⟨m1, hp1, hf1⟩ := ih1 _ hf
      obtain ⟨m2, hp2, hf2⟩ := ih2 _ hf1
      exact ⟨m2, hp1.trans hp2, hf2⟩
  exact multisig_complete H C mis cache allowed sigs' keys' ms' hwf' huniq (hs.nodup_iff.mp hnd) hf'
    ((hp.symm.subperm.trans hsub).trans hk.subperm)

/-! ### the instruction computes the specification -/
section instruction
open Instr

/-- **`OP_CHECK_MULTISIG allowed m n` computes `SigPure.multisig`** (no signature-extension plugin):
    with the `n` keys on top of the `m` signatures, the instruction ends with exactly the
    specification's Boolean on the remaining stack, or with exactly its error. The C03 theorems
    about `SigPure.multisig` (greedy matching, soundness, completeness, order independence) are
    therefore statements about the instruction. -/
theorem checkMultisig_instruction (cfg : Cfg) (hno : cfg.sigExts = []) (T : UInt8 → Op) (k : Op) (fr : Frame) (sh : Shared)
    (allowed m n : Nat) (rest : Bytes) (keys sigs st : List Bytes) (r : Res)
    (ha : allowed < 256) (hm : m < 256) (hn : n < 256)
    (hrest : fr.rest = UInt8.ofNat allowed :: UInt8.ofNat m :: UInt8.ofNat n :: rest)
    (hkl : keys.length = n) (hsl : sigs.length = m) (hs : sh.stack = keys ++ (sigs ++ st))
    (hsz : ∀ x ∈ keys ++ sigs, x.length ≤ cfg.lim.maxItemSize) (h1 : 1 ≤ cfg.lim.maxItemSize)
    (hroom : st.length + 2 ≤ cfg.lim.maxItems)
    (h : match SigPure.multisig H C cfg.lim.maxItemSize sh.cache allowed sigs keys with
         | .ok b => Steps T cfg.lim k { fr with rest := rest } { sh with stack := boolBytes b :: st } r
         | .error e => r = .err (.user e) { sh with stack := st }) :
    Steps T cfg.lim (opCheckMultisig H C cfg k) fr sh r := by
  unfold opCheckMultisig sigExt
  rw [hno]
  simp only [runSigExts]
  unfold readU1
  nstep Steps.read (by simp [hrest]) ?_
  simp only [hrest, List.take_succ_cons, List.take_zero, List.drop_succ_cons, List.drop_zero, u1_of_nat _ ha]
  nstep Steps.read (by simp) ?_
  simp only [List.take_succ_cons, List.take_zero, List.drop_succ_cons, List.drop_zero, u1_of_nat _ hm]
  nstep Steps.read (by simp) ?_
  simp only [List.take_succ_cons, List.take_zero, List.drop_succ_cons, List.drop_zero, u1_of_nat _ hn]
  refine popN_steps _ n _ sh keys (sigs ++ st) r hkl hs ?_
  refine popN_steps _ m _ _ sigs st r hsl rfl ?_
  dsimp only
  refine msLoop_steps H C allowed _ sigs keys [] _ _ r (fun s hs' => hsz s (by simp [hs'])) (fun v hv => hsz v (by simp [hv])) h1
    (by simpa using hroom) ?_
  dsimp only
  simp only [SigPure.multisig, bind, Except.bind] at h
  cases hl : SigPure.multisigLoop H C cfg.lim.maxItemSize sh.cache allowed sigs keys [] with
  | error e => rw [hl] at h; exact h
  | ok c =>
    rw [hl] at h
    simp only [pure, Except.pure] at h ⊢
    unfold pushBool
    nstep Steps.push (by cases (decide (c.length = sigs.length)) <;> simp [boolBytes] <;> omega) (by simp; omega) ?_
    exact h


end instruction

end TV.C03
