import Tapeverif.Lemmas.Asm
import Tapeverif.Model.Tools
import Tapeverif.Gen.Tables
/-! # C11 — the documented encoding: nothing dropped, duplicated or reordered; PUSH is minimal

The reference assembler is `encodeSeq`; source *texts* are tied to it differentially
(`harness/props/c11.py`) — no theorem quantifies over source texts. -/
namespace TV.C11

open Asm

/-- C11.1 the encoding of a program is the concatenation, in order, of the encodings of its
    instructions. -/
theorem encode_append (p q : List Instr) : encodeSeq (p ++ q) = encodeSeq p ++ encodeSeq q := by
  simp [encodeSeq]

/-- C11.2a the operands of a well-formed instruction decode back to exactly its fields -/
theorem decode_encode_operands (c : UInt8) (fs : List Bytes) (rest : Bytes)
    (hwf : wellFormed ⟨c, fs⟩ = true) :
    decodeOperands c (encodeOperands c fs ++ rest) = some (fs, rest) := by
  unfold wellFormed at hwf
  unfold decodeOperands encodeOperands
  cases hk : kindOf c.toNat <;> simp only [hk] at hwf ⊢
  · -- none
    match fs, hwf with
    | [], _ => simp
  · -- u1
    match fs, hwf with
    | [x], h =>
      simp only [decide_eq_true_eq] at h
      have := takeExact_append x rest; rw [h] at this; simp [this]
  · -- sized1
    match fs, hwf with
    | [v], h =>
      simp only [decide_eq_true_eq] at h
      simp [readSized_sized 1 v rest (by simpa using h)]
  · -- sized2
    match fs, hwf with
    | [v], h =>
      simp only [decide_eq_true_eq] at h
      simp [readSized_sized 2 v rest (by simpa using h)]
  · -- writeCache
    match fs, hwf with
    | [k, n], h =>
      simp only [Bool.and_eq_true, decide_eq_true_eq] at h
      rw [List.append_assoc, readSized_sized 1 k (n ++ rest) (by simpa using h.1)]
      have := takeExact_append n rest; rw [h.2] at this; simp [this]
  · -- f4
    match fs, hwf with
    | [x], h =>
      simp only [decide_eq_true_eq] at h
      have := takeExact_append x rest; rw [h] at this; simp [this]
  · -- swap
    match fs, hwf with
    | [x, y], h =>
      simp only [Bool.and_eq_true, decide_eq_true_eq] at h
      have h1 := takeExact_append x (y ++ rest); rw [h.1] at h1
      have h2 := takeExact_append y rest; rw [h.2] at h2
      simp [List.append_assoc, h1, h2]
  · -- multisig
    match fs, hwf with
    | [x, y, z], h =>
      simp only [Bool.and_eq_true, decide_eq_true_eq] at h
      have h1 := takeExact_append x (y ++ (z ++ rest)); rw [h.1.1] at h1
      have h2 := takeExact_append y (z ++ rest); rw [h.1.2] at h2
      have h3 := takeExact_append z rest; rw [h.2] at h3
      simp [List.append_assoc, h1, h2, h3]
  · -- bytes32
    match fs, hwf with
    | [x], h =>
      simp only [decide_eq_true_eq] at h
      have := takeExact_append x rest; rw [h] at this; simp [this]
  · -- def
    match fs, hwf with
    | [hd, body], h =>
      simp only [Bool.and_eq_true, decide_eq_true_eq] at h
      have h1 := takeExact_append hd (sized 2 body ++ rest); rw [h.1] at h1
      simp [List.append_assoc, h1, readSized_sized 2 body rest (by simpa using h.2)]
  · -- body1
    match fs, hwf with
    | [v], h =>
      simp only [decide_eq_true_eq] at h
      simp [readSized_sized 2 v rest (by simpa using h)]
  · -- body2
    match fs, hwf with
    | [b1, b2], h =>
      simp only [Bool.and_eq_true, decide_eq_true_eq] at h
      rw [List.append_assoc, readSized_sized 2 b1 (sized 2 b2 ++ rest) (by simpa using h.1)]
      simp [readSized_sized 2 b2 rest (by simpa using h.2)]

/-- C11.2 the bytecode determines the program: decoding the documented encoding of well-formed
    instructions gives the same instructions back, in order. -/
theorem decode_encode_seq : ∀ (is : List Instr) (fuel : Nat), (∀ i ∈ is, wellFormed i = true) →
    (encodeSeq is).length ≤ fuel → decodeSeq fuel (encodeSeq is) = some is := by
  intro is
  induction is with
  | nil => intro fuel _ _; cases fuel <;> simp [encodeSeq, decodeSeq]
  | cons i rest ih =>
    intro fuel hwf hlen
    have hi := hwf i (by simp)
    simp only [encodeSeq, List.flatMap_cons] at hlen ⊢
    cases fuel with
    | zero => simp [encodeInstr] at hlen
    | succ n =>
      have hdn : decodeNext (encodeInstr i ++ List.flatMap encodeInstr rest) = some (i, List.flatMap encodeInstr rest) := by
        simp only [encodeInstr, List.cons_append, decodeNext]
        rw [decode_encode_operands i.code i.fields _ hi]
        simp
      have hne : encodeInstr i ++ List.flatMap encodeInstr rest ≠ [] := by simp [encodeInstr]
      match hb : encodeInstr i ++ List.flatMap encodeInstr rest with
      | [] => exact absurd hb hne
      | c :: t =>
        simp only [decodeSeq]
        rw [← hb, hdn]
        have := ih n (fun j hj => hwf j (by simp [hj])) (by
          simp only [encodeSeq]
          have : (encodeInstr i).length ≥ 1 := by simp [encodeInstr]
          rw [List.length_append] at hlen; omega)
        simp only [encodeSeq] at this
        simp [this]

/-- C11.3 `push` selects the smallest push instruction that fits: PUSH0 iff 1 byte, PUSH1 iff
    2 … 255 bytes, PUSH2 iff 256 … 65535 bytes; the empty value and ≥ 65536 bytes are rejected. -/
theorem push_minimal (v : Bytes) :
    (v.length = 1 → Tools.pushBytes v = some (2 :: v)) ∧
    (1 < v.length ∧ v.length < 256 → Tools.pushBytes v = some (3 :: (natToBytesBE 1 v.length ++ v))) ∧
    (255 < v.length ∧ v.length < 65536 → Tools.pushBytes v = some (4 :: (natToBytesBE 2 v.length ++ v))) ∧
    (v.length = 0 ∨ 65536 ≤ v.length → Tools.pushBytes v = none) := by
  unfold Tools.pushBytes Tools.opc
  refine ⟨?_, ?_, ?_, ?_⟩
  · intro h; simp [h]
  · intro h
    have : v.length ≠ 1 := by omega
    simp [this, h]
  · intro h
    have h1 : v.length ≠ 1 := by omega
    have h2 : ¬ (1 < v.length ∧ v.length < 256) := by omega
    simp [h1, h2, h]
  · intro h
    have h1 : v.length ≠ 1 := by omega
    have h2 : ¬ (1 < v.length ∧ v.length < 256) := by omega
    have h3 : ¬ (255 < v.length ∧ v.length < 65536) := by omega
    simp [h1, h2, h3]

/-- … and what `push` emits decodes as that push instruction carrying exactly `v`. -/
theorem push_decodes (v e : Bytes) (h : Tools.pushBytes v = some e) :
    ∃ c, decodeNext e = some (⟨c, [v]⟩, []) := by
  unfold Tools.pushBytes Tools.opc at h
  split at h
  · next h1 =>
    simp only [Option.some.injEq] at h; subst h
    refine ⟨2, ?_⟩
    have := decode_encode_operands 2 [v] [] (by simp [wellFormed, kindOf, h1])
    simpa [decodeNext, encodeOperands, kindOf] using this
  · split at h
    · next h2 =>
      simp only [Option.some.injEq] at h; subst h
      refine ⟨3, ?_⟩
      have := decode_encode_operands 3 [v] [] (by simp [wellFormed, kindOf, h2.2])
      simpa [decodeNext, encodeOperands, kindOf, sized] using this
    · split at h
      · next h3 =>
        simp only [Option.some.injEq] at h; subst h
        refine ⟨4, ?_⟩
        have := decode_encode_operands 4 [v] [] (by simp [wellFormed, kindOf, h3.2])
        simpa [decodeNext, encodeOperands, kindOf, sized] using this
      · cases h

/-- table obligation: for every op name the compiler's operand encoder class equals the model's
    layout (regenerated from /repo's `get_args` / `parse_next` on this run) -/
theorem compiler_classes_match :
    Gen.opcodes.all (fun (c, n) =>
      ((Gen.compilerClass.find? (·.1 = n)).map (·.2)) = some (kindOf c).name) = true := by
  decide +kernel

/-- every alias resolves to an assigned opcode name -/
theorem aliases_resolve :
    Gen.aliases.all (fun (_, full) => Gen.opcodes.any (fun (_, n) => n = full)) = true := by
  decide +kernel

end TV.C11
