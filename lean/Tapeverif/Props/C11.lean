namespace TV.C11
end TV.C11
