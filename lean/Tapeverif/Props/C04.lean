import Tapeverif.Lemmas.BigStep
import Tapeverif.Model.Tools
/-! # C04 — merklized scripts -/
namespace TV.C04

open Instr Tools

variable (H : Hashes)

/-- one big-step rule, then normalise the record updates in the new state -/
macro "nstep " t:term : tactic => `(tactic| (refine $t; try dsimp only))

/-- the digest `OP_MERKLEVAL` compares with the committed root -/
def levelDigest (script sib : Bytes) : Bytes :=
  xorBytes (H.sha256 sib) (H.sha256 (H.sha256 script))

theorem zipWithPad_length (f : UInt8 → UInt8 → UInt8) : ∀ (a b : Bytes),
    (zipWithPad f a b).length = max a.length b.length := by
  intro a
  induction a with
  | nil =>
    intro b
    induction b with
    | nil => simp [zipWithPad]
    | cons y s ih => simp [zipWithPad, ih]
  | cons x r ih =>
    intro b
    cases b with
    | nil => simp [zipWithPad, ih]
    | cons y s => simp [zipWithPad, ih]

/-- everything `OP_MERKLEVAL` does before `OP_EQUAL_VERIFY`: it leaves `root :: digest :: script :: st` -/
theorem merkleval_core (cfg : Cfg) (T : UInt8 → Op) (k : Op) (fr : Frame) (sh : Shared)
    (root rest script sib : Bytes) (st : List Bytes) (r : Res)
    (hH : ∀ x, (H.sha256 x).length = 32)
    (hroot : root.length = 32) (hrest : fr.rest = root ++ rest)
    (hs : sh.stack = script :: sib :: st)
    (hsz : script.length ≤ cfg.lim.maxItemSize) (hsb : sib.length ≤ cfg.lim.maxItemSize)
    (h32 : 32 ≤ cfg.lim.maxItemSize) (hroom : st.length + 2 < cfg.lim.maxItems)
    (hk : Steps T cfg.lim (opEqualVerify (opEval cfg k)) { fr with rest := rest }
            { sh with stack := root :: levelDigest H script sib :: script :: st } r) :
    Steps T cfg.lim (opMerkleval H cfg k) fr sh r := by
  unfold opMerkleval
  nstep Steps.read (by simp [hrest, hroot]) ?_
  have htake : fr.rest.take 32 = root := by rw [hrest, ← hroot]; simp
  rw [htake]
  unfold opDup
  nstep Steps.pop script (sib :: st) hs ?_
  nstep Steps.push hsz (by simp; omega) ?_
  nstep Steps.push hsz (by simp; omega) ?_
  unfold opSha256
  nstep Steps.pop script (script :: sib :: st) rfl ?_
  nstep Steps.push (by rw [hH]; exact h32) (by simp; omega) ?_
  nstep Steps.pop (H.sha256 script) (script :: sib :: st) rfl ?_
  nstep Steps.push (by rw [hH]; exact h32) (by simp; omega) ?_
  unfold swapCore
  simp only [show (1 : Nat) ≠ 2 by decide, ↓reduceIte]
  nstep Steps.depth ?_
  simp only [List.length_cons]
  rw [if_pos (by simp)]
  simp only [popN]
  nstep Steps.pop (H.sha256 (H.sha256 script)) (script :: sib :: st) rfl ?_
  nstep Steps.pop script (sib :: st) rfl ?_
  nstep Steps.pop sib st rfl ?_
  simp only [swapList, List.getElem?_cons_succ, List.getElem?_cons_zero, List.set_cons_succ, List.set_cons_zero,
    List.reverse_cons, List.reverse_nil, List.nil_append, List.cons_append, pushAll]
  nstep Steps.push hsz (by simp; omega) ?_
  nstep Steps.push hsb (by simp; omega) ?_
  nstep Steps.push (by rw [hH]; exact h32) (by simp; omega) ?_
  unfold opSwap2
  nstep Steps.pop (H.sha256 (H.sha256 script)) (sib :: script :: st) rfl ?_
  nstep Steps.pop sib (script :: st) rfl ?_
  nstep Steps.push (by rw [hH]; exact h32) (by simp; omega) ?_
  nstep Steps.push hsb (by simp; omega) ?_
  nstep Steps.pop sib (H.sha256 (H.sha256 script) :: script :: st) rfl ?_
  nstep Steps.push (by rw [hH]; exact h32) (by simp; omega) ?_
  unfold bitop
  nstep Steps.pop (H.sha256 sib) (H.sha256 (H.sha256 script) :: script :: st) rfl ?_
  nstep Steps.pop (H.sha256 (H.sha256 script)) (script :: st) rfl ?_
  have hx : (xorBytes (H.sha256 sib) (H.sha256 (H.sha256 script))).length = 32 := by
    unfold xorBytes; rw [zipWithPad_length, hH, hH]; rfl
  nstep Steps.push (by rw [hx]; exact h32) (by simp; omega) ?_
  nstep Steps.push (by rw [hroot]; exact h32) (by simp; omega) ?_
  have hdrop : fr.rest.drop 32 = rest := by rw [hrest, ← hroot]; simp
  rw [hdrop]
  exact hk

/-- **C04 binding, instruction level.** `OP_MERKLEVAL <root>` on a stack `script :: sib :: st`
    whose pair does not hash to `root` ends with a `ScriptExecutionError` *before* the EVAL
    step: the derivation never reaches a `sub` node, and the final state differs from
    the initial one only in the stack (`script :: st`) — cache, definitions, call counters,
    plugin log and random counter are untouched, so no instruction of `script` ran. -/
theorem merkleval_rejects (cfg : Cfg) (T : UInt8 → Op) (k : Op) (fr : Frame) (sh : Shared)
    (root rest script sib : Bytes) (st : List Bytes)
    (hH : ∀ x, (H.sha256 x).length = 32)
    (hroot : root.length = 32) (hrest : fr.rest = root ++ rest)
    (hs : sh.stack = script :: sib :: st)
    (hsz : script.length ≤ cfg.lim.maxItemSize) (hsb : sib.length ≤ cfg.lim.maxItemSize)
    (h32 : 32 ≤ cfg.lim.maxItemSize) (hroom : st.length + 2 < cfg.lim.maxItems)
    (hne : levelDigest H script sib ≠ root) :
    Steps T cfg.lim (opMerkleval H cfg k) fr sh (.err (.user .see) { sh with stack := script :: st }) := by
  refine merkleval_core H cfg T k fr sh root rest script sib st _ hH hroot hrest hs hsz hsb h32 hroom ?_
  unfold levelDigest
  unfold opEqualVerify opEqual
  nstep Steps.pop root (xorBytes (H.sha256 sib) (H.sha256 (H.sha256 script)) :: script :: st) rfl ?_
  nstep Steps.pop (xorBytes (H.sha256 sib) (H.sha256 (H.sha256 script))) (script :: st) rfl ?_
  have hneq : (root == xorBytes (H.sha256 sib) (H.sha256 (H.sha256 script))) = false := by
    simp only [beq_eq_false_iff_ne, ne_eq]
    exact fun h => hne h.symm
  rw [hneq]
  unfold pushBool
  nstep Steps.push (by simp [boolBytes]; omega) (by simp; omega) ?_
  unfold opVerify
  nstep Steps.pop (boolBytes false) (script :: st) rfl ?_
  simp only [show truthy (boolBytes false) = false by decide, Bool.false_eq_true, ↓reduceIte]
  exact Steps.fail _ _ _


/-- **C04 completeness, instruction level.** On a pair that does hash to `root` the instruction
    behaves exactly as `OP_EVAL` of `script` on the stack `st` — whatever that outcome `r` is. -/
theorem merkleval_accepts (cfg : Cfg) (T : UInt8 → Op) (k : Op) (fr : Frame) (sh : Shared)
    (root rest script sib : Bytes) (st : List Bytes) (r : Res)
    (hH : ∀ x, (H.sha256 x).length = 32)
    (hroot : root.length = 32) (hrest : fr.rest = root ++ rest)
    (hs : sh.stack = script :: sib :: st)
    (hsz : script.length ≤ cfg.lim.maxItemSize) (hsb : sib.length ≤ cfg.lim.maxItemSize)
    (h32 : 32 ≤ cfg.lim.maxItemSize) (hroom : st.length + 2 < cfg.lim.maxItems)
    (heq : levelDigest H script sib = root)
    (hk : Steps T cfg.lim (opEval cfg k) { fr with rest := rest } { sh with stack := script :: st } r) :
    Steps T cfg.lim (opMerkleval H cfg k) fr sh r := by
  refine merkleval_core H cfg T k fr sh root rest script sib st _ hH hroot hrest hs hsz hsb h32 hroom ?_
  unfold opEqualVerify opEqual
  nstep Steps.pop root (levelDigest H script sib :: script :: st) rfl ?_
  nstep Steps.pop (levelDigest H script sib) (script :: st) rfl ?_
  have hb : (root == levelDigest H script sib) = true := by rw [heq]; simp
  rw [hb]
  unfold pushBool
  nstep Steps.push (by simp [boolBytes]; omega) (by simp; omega) ?_
  unfold opVerify
  nstep Steps.pop (boolBytes true) (script :: st) rfl ?_
  simp only [show truthy (boolBytes true) = true by decide, ↓reduceIte]
  exact hk

end TV.C04
