import Tapeverif.Lemmas.Run
/-! # C04 — merklized scripts -/
namespace TV.C04

open Instr Tools

variable (H : Hashes) (C : Curve)

/-- the digest `OP_MERKLEVAL` compares with the committed root -/
def levelDigest (script sib : Bytes) : Bytes :=
  xorBytes (H.sha256 sib) (H.sha256 (H.sha256 script))

theorem zipWithPad_length (f : UInt8 → UInt8 → UInt8) : ∀ (a b : Bytes),
    (zipWithPad f a b).length = max a.length b.length := by
  intro a
  induction a with
  | nil =>
    intro b
    induction b with
    | nil => simp [zipWithPad]
    | cons y s ih => simp [zipWithPad, ih]
  | cons x r ih =>
    intro b
    cases b with
    | nil => simp [zipWithPad, ih]
    | cons y s => simp [zipWithPad, ih]

/-- everything `OP_MERKLEVAL` does before `OP_EQUAL_VERIFY`: it leaves `root :: digest :: script :: st` -/
theorem merkleval_core (cfg : Cfg) (T : UInt8 → Op) (k : Op) (fr : Frame) (sh : Shared)
    (root rest script sib : Bytes) (st : List Bytes) (r : Res)
    (hH : ∀ x, (H.sha256 x).length = 32)
    (hroot : root.length = 32) (hrest : fr.rest = root ++ rest)
    (hs : sh.stack = script :: sib :: st)
    (hsz : script.length ≤ cfg.lim.maxItemSize) (hsb : sib.length ≤ cfg.lim.maxItemSize)
    (h32 : 32 ≤ cfg.lim.maxItemSize) (hroom : st.length + 2 < cfg.lim.maxItems)
    (hk : Steps T cfg.lim (opEqualVerify (opEval cfg k)) { fr with rest := rest }
            { sh with stack := root :: levelDigest H script sib :: script :: st } r) :
    Steps T cfg.lim (opMerkleval H cfg k) fr sh r := by
  unfold opMerkleval
  nstep Steps.read (by simp [hrest, hroot]) ?_
  have htake : fr.rest.take 32 = root := by rw [hrest, ← hroot]; simp
  rw [htake]
  unfold opDup
  nstep Steps.pop script (sib :: st) hs ?_
  nstep Steps.push hsz (by simp; omega) ?_
  nstep Steps.push hsz (by simp; omega) ?_
  unfold opSha256
  nstep Steps.pop script (script :: sib :: st) rfl ?_
  nstep Steps.push (by rw [hH]; exact h32) (by simp; omega) ?_
  nstep Steps.pop (H.sha256 script) (script :: sib :: st) rfl ?_
  nstep Steps.push (by rw [hH]; exact h32) (by simp; omega) ?_
  unfold swapCore
  simp only [show (1 : Nat) ≠ 2 by decide, ↓reduceIte]
  nstep Steps.depth ?_
  simp only [List.length_cons]
  rw [if_pos (by simp)]
  simp only [popN]
  nstep Steps.pop (H.sha256 (H.sha256 script)) (script :: sib :: st) rfl ?_
  nstep Steps.pop script (sib :: st) rfl ?_
  nstep Steps.pop sib st rfl ?_
  simp only [swapList, List.getElem?_cons_succ, List.getElem?_cons_zero, List.set_cons_succ, List.set_cons_zero,
    List.reverse_cons, List.reverse_nil, List.nil_append, List.cons_append, pushAll]
  nstep Steps.push hsz (by simp; omega) ?_
  nstep Steps.push hsb (by simp; omega) ?_
  nstep Steps.push (by rw [hH]; exact h32) (by simp; omega) ?_
  unfold opSwap2
  nstep Steps.pop (H.sha256 (H.sha256 script)) (sib :: script :: st) rfl ?_
  nstep Steps.pop sib (script :: st) rfl ?_
  nstep Steps.push (by rw [hH]; exact h32) (by simp; omega) ?_
  nstep Steps.push hsb (by simp; omega) ?_
  nstep Steps.pop sib (H.sha256 (H.sha256 script) :: script :: st) rfl ?_
  nstep Steps.push (by rw [hH]; exact h32) (by simp; omega) ?_
  unfold bitop
  nstep Steps.pop (H.sha256 sib) (H.sha256 (H.sha256 script) :: script :: st) rfl ?_
  nstep Steps.pop (H.sha256 (H.sha256 script)) (script :: st) rfl ?_
  have hx : (xorBytes (H.sha256 sib) (H.sha256 (H.sha256 script))).length = 32 := by
    unfold xorBytes; rw [zipWithPad_length, hH, hH]; rfl
  nstep Steps.push (by rw [hx]; exact h32) (by simp; omega) ?_
  nstep Steps.push (by rw [hroot]; exact h32) (by simp; omega) ?_
  have hdrop : fr.rest.drop 32 = rest := by rw [hrest, ← hroot]; simp
  rw [hdrop]
  exact hk

/-- **C04 binding, instruction level.** `OP_MERKLEVAL <root>` on a stack `script :: sib :: st`
    whose pair does not hash to `root` ends with a `ScriptExecutionError` *before* the EVAL
    step: the derivation never reaches a `sub` node, and the final state differs from
    the initial one only in the stack (`script :: st`) — cache, definitions, call counters,
    plugin log and random counter are untouched, so no instruction of `script` ran. -/
theorem merkleval_rejects (cfg : Cfg) (T : UInt8 → Op) (k : Op) (fr : Frame) (sh : Shared)
    (root rest script sib : Bytes) (st : List Bytes)
    (hH : ∀ x, (H.sha256 x).length = 32)
    (hroot : root.length = 32) (hrest : fr.rest = root ++ rest)
    (hs : sh.stack = script :: sib :: st)
    (hsz : script.length ≤ cfg.lim.maxItemSize) (hsb : sib.length ≤ cfg.lim.maxItemSize)
    (h32 : 32 ≤ cfg.lim.maxItemSize) (hroom : st.length + 2 < cfg.lim.maxItems)
    (hne : levelDigest H script sib ≠ root) :
    Steps T cfg.lim (opMerkleval H cfg k) fr sh (.err (.user .see) { sh with stack := script :: st }) := by
  refine merkleval_core H cfg T k fr sh root rest script sib st _ hH hroot hrest hs hsz hsb h32 hroom ?_
  unfold levelDigest
  unfold opEqualVerify opEqual
  nstep Steps.pop root (xorBytes (H.sha256 sib) (H.sha256 (H.sha256 script)) :: script :: st) rfl ?_
  nstep Steps.pop (xorBytes (H.sha256 sib) (H.sha256 (H.sha256 script))) (script :: st) rfl ?_
  have hneq : (root == xorBytes (H.sha256 sib) (H.sha256 (H.sha256 script))) = false := by
    simp only [beq_eq_false_iff_ne, ne_eq]
    exact fun h => hne h.symm
  rw [hneq]
  unfold pushBool
  nstep Steps.push (by simp [boolBytes]; omega) (by simp; omega) ?_
  unfold opVerify
  nstep Steps.pop (boolBytes false) (script :: st) rfl ?_
  simp only [show truthy (boolBytes false) = false by decide, Bool.false_eq_true, ↓reduceIte]
  exact Steps.fail _ _ _


/-- **C04 completeness, instruction level.** On a pair that does hash to `root` the instruction
    behaves exactly as `OP_EVAL` of `script` on the stack `st` — whatever that outcome `r` is. -/
theorem merkleval_accepts (cfg : Cfg) (T : UInt8 → Op) (k : Op) (fr : Frame) (sh : Shared)
    (root rest script sib : Bytes) (st : List Bytes) (r : Res)
    (hH : ∀ x, (H.sha256 x).length = 32)
    (hroot : root.length = 32) (hrest : fr.rest = root ++ rest)
    (hs : sh.stack = script :: sib :: st)
    (hsz : script.length ≤ cfg.lim.maxItemSize) (hsb : sib.length ≤ cfg.lim.maxItemSize)
    (h32 : 32 ≤ cfg.lim.maxItemSize) (hroom : st.length + 2 < cfg.lim.maxItems)
    (heq : levelDigest H script sib = root)
    (hk : Steps T cfg.lim (opEval cfg k) { fr with rest := rest } { sh with stack := script :: st } r) :
    Steps T cfg.lim (opMerkleval H cfg k) fr sh r := by
  refine merkleval_core H cfg T k fr sh root rest script sib st _ hH hroot hrest hs hsz hsb h32 hroom ?_
  unfold opEqualVerify opEqual
  nstep Steps.pop root (levelDigest H script sib :: script :: st) rfl ?_
  nstep Steps.pop (levelDigest H script sib) (script :: st) rfl ?_
  have hb : (root == levelDigest H script sib) = true := by rw [heq]; simp
  rw [hb]
  unfold pushBool
  nstep Steps.push (by simp [boolBytes]; omega) (by simp; omega) ?_
  unfold opVerify
  nstep Steps.pop (boolBytes true) (script :: st) rfl ?_
  simp only [show truthy (boolBytes true) = true by decide, ↓reduceIte]
  exact hk

/-! ### whole trees -/

theorem zipWithPad_comm (f : UInt8 → UInt8 → UInt8) (hf : ∀ a b, f a b = f b a) :
    ∀ (a b : Bytes), zipWithPad f a b = zipWithPad f b a := by
  intro a
  induction a with
  | nil =>
    intro b
    induction b with
    | nil => rfl
    | cons y s ih => simp [zipWithPad, hf, ih]
  | cons x r ih =>
    intro b
    cases b with
    | nil =>
      have := ih []
      simp [zipWithPad, hf, this]
    | cons y s => simp [zipWithPad, hf, ih]

theorem xorBytes_comm (a b : Bytes) : xorBytes a b = xorBytes b a :=
  zipWithPad_comm _ (fun x y => by exact UInt8.xor_comm x y) a b

/-- a subtree's executed script hashes to its commitment -/
theorem code_commitment (t : Tree) : H.sha256 (Tree.code H t) = Tree.commitment H t := by
  cases t with
  | leaf s => simp [Tree.code, Tree.commitment]
  | node l r => simp [Tree.code, Tree.commitment, Tree.lockScript]

/-- **every level of every tree verifies**, whichever side the executed subtree is on -/
theorem level_ok_left (l r : Tree) :
    levelDigest H (Tree.code H l) (Tree.commitment H r) = Tree.root H (.node l r) := by
  unfold levelDigest
  rw [code_commitment, xorBytes_comm]
  simp [Tree.root]

theorem level_ok_right (l r : Tree) :
    levelDigest H (Tree.code H r) (Tree.commitment H l) = Tree.root H (.node l r) := by
  unfold levelDigest
  rw [code_commitment]
  simp [Tree.root]


/-- the items a leaf's unlocking script leaves on the stack (top first): per level the executed
    script of the subtree on the path, then the sibling's commitment -/
def proofStack : Tree → List Bool → List Bytes
  | .node l r, d :: rest =>
    let sub := if d then r else l
    let sib := if d then l else r
    Tree.code H sub :: Tree.commitment H sib :: proofStack sub rest
  | _, _ => []

/-- the leaf script reached by a path -/
def leafAt : Tree → List Bool → Option Bytes
  | .leaf s, [] => some s
  | .node l r, d :: rest => leafAt (if d then r else l) rest
  | _, _ => none

/-- frame and state in which the leaf script starts: per level one `OP_EVAL` entry (call counter
    + 1, a copy of the definition dictionary), the proof items popped -/
def leafEntry : Tree → List Bool → Frame → Shared → List Bytes → Frame × Shared
  | .node l r, d :: rest, fr, sh, st =>
    let sub := if d then r else l
    let sh1 : Shared := { sh with stack := proofStack H sub rest ++ st }
    let frE := evalFrame (Tree.code H sub) (getCount fr sh1) (copyDict sh1 fr.dict).1
    let shE := (copyDict sh1 fr.dict).2
    match sub with
    | .leaf _ => (frE, shE)
    | .node _ _ => leafEntry sub rest { frE with rest := Tree.root H sub } shE st
  | _, _, fr, sh, _ => (fr, sh)


/-- **C04 completeness and exactness, whole tree.** From a stack holding the proof of the leaf
    at `path` (as its unlocking script leaves it) above `st`, `OP_MERKLEVAL <root>` ends exactly
    as the leaf script does when started on `st` in the frame `leafEntry` describes — same
    cache, plugin log and random counter as before the lock, the call counter advanced by the
    number of levels — seen through `eval` by the lock's tape. The only scripts that run on the
    way are the level scripts `OP_MERKLEVAL <subroot>` of the path; no other leaf starts. -/
theorem tree_run (cfg : Cfg) (hev : cfg.disallowEval = false)
    (hH : ∀ x, (H.sha256 x).length = 32) :
    ∀ (path : List Bool) (t : Tree) (s : Bytes) (fr : Frame) (sh : Shared) (st : List Bytes) (rest : Bytes) (rL : Res),
    (∃ l r, t = .node l r) → leafAt t path = some s → s ≠ [] →
    fr.rest = Tree.root H t ++ rest →
    sh.stack = proofStack H t path ++ st →
    (∀ x ∈ proofStack H t path, x.length ≤ cfg.lim.maxItemSize) → 32 ≤ cfg.lim.maxItemSize →
    (proofStack H t path ++ st).length < cfg.lim.maxItems →
    getCount fr sh + path.length ≤ cfg.lim.callLimit →
    fr.fn = none → sh.returned = false →
    TSteps (instrTable H C cfg) cfg.lim (leafEntry H t path fr sh st).1 (leafEntry H t path fr sh st).2 rL →
    Steps (instrTable H C cfg) cfg.lim (opMerkleval H cfg .done) fr sh
      (wrapEval cfg.evalReturn { fr with rest := rest } rL) := by
  intro path
  induction path with
  | nil =>
    intro t s fr sh st rest rL hn hleaf
    obtain ⟨l, r, rfl⟩ := hn
    simp [leafAt] at hleaf
  | cons d p ih =>
    intro t s fr sh st rest rL hn hleaf hsne hrest hs hsz h32 hroom hcalls hfn hret hL
    obtain ⟨l, r, rfl⟩ := hn
    -- name the subtree on the path and its sibling
    generalize hsub : (if d then r else l) = sub at *
    generalize hsib : (if d then l else r) = sib at *
    have hps : proofStack H (.node l r) (d :: p) = Tree.code H sub :: Tree.commitment H sib :: proofStack H sub p := by
      simp only [proofStack, hsub, hsib]
    rw [hps] at hs hsz hroom
    have hleaf' : leafAt sub p = some s := by simpa [leafAt, hsub] using hleaf
    have hdig : levelDigest H (Tree.code H sub) (Tree.commitment H sib) = Tree.root H (.node l r) := by
      cases d with
      | true => simp only [↓reduceIte] at hsub hsib; subst hsub; subst hsib; exact level_ok_right H l r
      | false => simp only [Bool.false_eq_true, ↓reduceIte] at hsub hsib; subst hsub; subst hsib; exact level_ok_left H l r
    have hrootlen : (Tree.root H (.node l r)).length = 32 := by
      simp only [Tree.root, xorBytes]
      rw [zipWithPad_length, hH, hH]; rfl
    refine merkleval_accepts H cfg _ .done fr sh (Tree.root H (.node l r)) rest (Tree.code H sub) (Tree.commitment H sib)
      (proofStack H sub p ++ st) _ hH hrootlen hrest hs (hsz _ (by simp)) (hsz _ (by simp)) h32
      (by simp at hroom ⊢; omega) hdig ?_
    have hcount : getCount fr sh = fr.count := by simp [getCount, hfn]
    have hcnt : ∀ (f : Frame) (s' : Shared), f.fn = none → getCount f s' = f.count := by
      intro f s' h; simp [getCount, h]
    simp only [List.length_cons] at hcalls
    cases hst : sub with
    | leaf s' =>
      subst hst
      have hp : p = [] ∧ s' = s := by
        cases p with
        | nil => simp [leafAt] at hleaf'; exact ⟨rfl, hleaf'⟩
        | cons _ _ => simp [leafAt] at hleaf'
      obtain ⟨rfl, rfl⟩ := hp
      simp only [leafEntry, hsub, proofStack, List.nil_append] at hL
      refine eval_done cfg hev _ _ _ (Tree.code H (.leaf s')) (proofStack H (.leaf s') [] ++ st) rL rfl
        (by simpa [Tree.code] using hsne) (by rw [hcnt _ _ (by exact hfn)]; rw [hcount] at hcalls; simp at hcalls ⊢; omega) ?_
      simpa [proofStack, Tree.code, getCount, hfn] using hL
    | node l' r' =>
      subst hst
      simp only [leafEntry, hsub] at hL
      -- the level script `OP_MERKLEVAL <subroot>` runs in its own eval frame
      generalize hsh1 : ({ sh with stack := proofStack H (.node l' r') p ++ st } : Shared) = sh1 at hL
      generalize hfrE : evalFrame (Tree.code H (.node l' r')) (getCount fr sh1) (copyDict sh1 fr.dict).1 = frE at hL
      have hih := ih (.node l' r') s { frE with rest := Tree.root H (.node l' r') } (copyDict sh1 fr.dict).2 st [] rL
        ⟨l', r', rfl⟩ hleaf' hsne (by simp)
        (by subst hsh1; simp [copyDict])
        (fun x hx => hsz x (by simp [hx])) h32
        (by simp at hroom ⊢; omega)
        (by subst hfrE; simp [getCount, evalFrame, hfn]; omega)
        (by subst hfrE; simp [evalFrame])
        (by subst hsh1; simp [copyDict, hret])
        hL
      rw [← wrapEval_wrapEval cfg.evalReturn _ { frE with rest := [] } rL]
      refine eval_done cfg hev _ _ _ (Tree.code H (.node l' r')) (proofStack H (.node l' r') p ++ st) _ rfl
        (by simp [Tree.code, Tree.lockScript, opc]) (by rw [hcnt _ _ (by exact hfn)]; rw [hcount] at hcalls; simp at hcalls ⊢; omega) ?_
      have hfr : evalFrame (Tree.code H (.node l' r'))
          (getCount { fr with rest := rest } { sh with stack := Tree.code H (.node l' r') :: (proofStack H (.node l' r') p ++ st) })
          (copyDict ({ ({ sh with stack := Tree.code H (.node l' r') :: (proofStack H (.node l' r') p ++ st) } : Shared) with stack := proofStack H (.node l' r') p ++ st }) ({ fr with rest := rest } : Frame).dict).1 = frE := by
        subst hfrE; subst hsh1; rfl
      have hsh : (copyDict ({ ({ sh with stack := Tree.code H (.node l' r') :: (proofStack H (.node l' r') p ++ st) } : Shared) with stack := proofStack H (.node l' r') p ++ st }) ({ fr with rest := rest } : Frame).dict).2 = (copyDict sh1 fr.dict).2 := by
        subst hsh1; rfl
      rw [hfr, hsh]
      refine tape_single frE (copyDict sh1 fr.dict).2 60 (Tree.root H (.node l' r')) _ rfl _ rL ?_ ?_ ?_ hih
      · subst hfrE; simp [evalFrame, Tree.code, Tree.lockScript, opc]
      · subst hfrE; simp [evalFrame]
      · subst hsh1; simp [copyDict, hret]

/-- **the unlocking script pushes exactly the proof**: running the bytes `Tree.unlock` produces
    (at the head of any tape) leaves `proofStack` on top of the stack and nothing else changes -/
theorem unlock_run (cfg : Cfg) :
    ∀ (path : List Bool) (t : Tree) (u : Bytes) (fr : Frame) (sh : Shared) (rest' : Bytes) (r : Res),
    Tree.unlock H t path = some u → fr.rest = u ++ rest' → fr.len0 < fr.cap → sh.returned = false →
    (∀ x ∈ proofStack H t path, 0 < x.length ∧ x.length < 65536 ∧ x.length ≤ cfg.lim.maxItemSize) →
    (proofStack H t path).length + sh.stack.length ≤ cfg.lim.maxItems →
    TSteps (instrTable H C cfg) cfg.lim { fr with rest := rest' } { sh with stack := proofStack H t path ++ sh.stack } r →
    TSteps (instrTable H C cfg) cfg.lim fr sh r := by
  intro path
  induction path with
  | nil =>
    intro t u fr sh rest' r hu hrest _ _ _ _ h
    cases t with
    | node l r => simp [Tree.unlock] at hu
    | leaf s =>
      simp only [Tree.unlock, Option.some.injEq] at hu
      subst hu
      simp only [List.nil_append] at hrest
      have hf : ({ fr with rest := rest' } : Frame) = fr := by cases fr; simp_all
      have hsh : ({ sh with stack := proofStack H (.leaf s) [] ++ sh.stack } : Shared) = sh := by
        cases sh; simp [proofStack]
      rw [hf, hsh] at h
      exact h
  | cons d p ih =>
    intro t u fr sh rest' r hu hrest hcap hr hsz hroom h
    cases t with
    | leaf s => simp [Tree.unlock] at hu
    | node l r' =>
      generalize hsub : (if d then r' else l) = sub at *
      generalize hsib : (if d then l else r') = sib at *
      have hun : ∃ inner, Tree.unlock H sub p = some inner ∧
          u = inner ++ pushB (Tree.commitment H sib) ++ pushB (Tree.code H sub) := by
        cases d with
        | true =>
          simp only [↓reduceIte] at hsub hsib; subst hsub; subst hsib
          simp only [Tree.unlock, ↓reduceIte] at hu
          cases hi : Tree.unlock H r' p with
          | none => simp [hi] at hu
          | some inner => simp [hi] at hu; exact ⟨inner, rfl, by rw [List.append_assoc]; exact hu.symm⟩
        | false =>
          simp only [Bool.false_eq_true, ↓reduceIte] at hsub hsib; subst hsub; subst hsib
          simp only [Tree.unlock, Bool.false_eq_true, ↓reduceIte] at hu
          cases hi : Tree.unlock H l p with
          | none => simp [hi] at hu
          | some inner => simp [hi] at hu; exact ⟨inner, rfl, by rw [List.append_assoc]; exact hu.symm⟩
      obtain ⟨inner, hinner, rfl⟩ := hun
      have hps : proofStack H (.node l r') (d :: p) = Tree.code H sub :: Tree.commitment H sib :: proofStack H sub p := by
        simp only [proofStack, hsub, hsib]
      rw [hps] at hsz hroom h
      have hcm := hsz (Tree.commitment H sib) (by simp)
      have hcd := hsz (Tree.code H sub) (by simp)
      simp only [List.length_cons] at hroom
      refine ih sub inner fr sh (pushB (Tree.commitment H sib) ++ (pushB (Tree.code H sub) ++ rest')) r hinner
        (by rw [hrest]; simp [List.append_assoc]) hcap hr (fun x hx => hsz x (by simp [hx])) (by omega) ?_
      refine run_pushB H C cfg _ _ (Tree.commitment H sib) (pushB (Tree.code H sub) ++ rest') r hcm.1 hcm.2.1 rfl hcap hr hcm.2.2
        (by simp; omega) ?_
      refine run_pushB H C cfg _ _ (Tree.code H sub) rest' r hcd.1 hcd.2.1 rfl hcap hr hcd.2.2
        (by simp; omega) ?_
      simpa using h


/-! ### serialisation -/

def Tree.depth : Tree → Nat
  | .leaf _ => 0
  | .node l r => max (Tree.depth l) (Tree.depth r) + 1

/-- what `ScriptNode.pack` can represent: every packed child is shorter than 2^16 bytes -/
def Tree.small : Tree → Prop
  | .leaf _ => True
  | .node l r => (Tree.pack l).length < 65536 ∧ (Tree.pack r).length < 65536 ∧ Tree.small l ∧ Tree.small r

def tagOf : Tree → UInt8
  | .leaf _ => 76
  | .node _ _ => 78

theorem pack_node (l r : Tree) :
    Tree.pack (.node l r) = tagOf l :: (u2 (Tree.pack l).length ++ (Tree.pack l ++ (tagOf r :: (u2 (Tree.pack r).length ++ Tree.pack r)))) := by
  cases l <;> cases r <;> simp [Tree.pack, tagOf, List.append_assoc]

/-- **C04 serialisation.** Reading back a packed tree returns the tree itself — hence the same
    root and the same unlocking script for every leaf — for every tree `pack` can represent,
    given fuel above its depth. -/
theorem unpack_pack : ∀ (fuel : Nat) (l r : Tree), Tree.small (.node l r) → Tree.depth (.node l r) ≤ fuel →
    Tree.unpack fuel (Tree.pack (.node l r)) = some (.node l r) := by
  intro fuel
  induction fuel with
  | zero => intro l r _ hd; simp [Tree.depth] at hd
  | succ n ih =>
    intro l r hs hd
    obtain ⟨hl, hr, hsl, hsr⟩ := hs
    rw [pack_node]
    have hu2 : ∀ k, (u2 k).length = 2 := fun k => natToBytesBE_length 2 k
    have hsub : ∀ (t : Tree), Tree.small t → Tree.depth t ≤ n → (Tree.pack t).length < 65536 →
        (if tagOf t = 76 then some (Tree.leaf (Tree.pack t)) else Tree.unpack n (Tree.pack t)) = some t := by
      intro t hst hdt _
      cases t with
      | leaf s => simp [tagOf, Tree.pack]
      | node a b =>
        simp only [tagOf, show (78 : UInt8) ≠ 76 by decide, ↓reduceIte]
        exact ih a b hst hdt
    simp only [Tree.unpack]
    have h1 : (u2 (Tree.pack l).length ++ (Tree.pack l ++ (tagOf r :: (u2 (Tree.pack r).length ++ Tree.pack r)))).take 2 = u2 (Tree.pack l).length :=
      take_append_len _ _ _ (hu2 _)
    have h2 : (u2 (Tree.pack l).length ++ (Tree.pack l ++ (tagOf r :: (u2 (Tree.pack r).length ++ Tree.pack r)))).drop 2 = Tree.pack l ++ (tagOf r :: (u2 (Tree.pack r).length ++ Tree.pack r)) :=
      drop_append_len _ _ _ (hu2 _)
    have hn1 : natOfBytesBE (u2 (Tree.pack l).length) = (Tree.pack l).length := by
      unfold u2; rw [natOf_natTo]; exact Nat.mod_eq_of_lt (by simpa using hl)
    have hn2 : natOfBytesBE (u2 (Tree.pack r).length) = (Tree.pack r).length := by
      unfold u2; rw [natOf_natTo]; exact Nat.mod_eq_of_lt (by simpa using hr)
    rw [h1, h2, hn1, take_append_len _ _ _ rfl, drop_append_len _ _ _ rfl]
    simp only
    rw [take_append_len _ _ _ (hu2 _), drop_append_len _ _ _ (hu2 _), hn2]
    simp only [Nat.lt_irrefl, ↓reduceIte, gt_iff_lt]
    simp only [Tree.depth] at hd
    rw [hsub l hsl (by omega) hl, hsub r hsr (by omega) hr]

example : Tree.unpack 3 (Tree.pack (.node (.leaf [1, 2]) (.node (.leaf [3]) (.leaf [])))) =
    some (.node (.leaf [1, 2]) (.node (.leaf [3]) (.leaf []))) := by decide


/-- Non-vacuity of `tree_run` / `unlock_run`: a three-leaf tree, the middle leaf's path and proof. -/
example : leafAt (.node (.leaf [1]) (.node (.leaf [1, 1]) (.leaf [0]))) [true, false] = some [1, 1] := rfl
example (H : Hashes) : (proofStack H (.node (.leaf [1]) (.node (.leaf [1, 1]) (.leaf [0]))) [true, false]).length = 4 := rfl

end TV.C04
