import Tapeverif.Lemmas.Term
import Tapeverif.Model.Auth
/-!
# C07 — every run ends

"… never … a single loop that does not end": for every op table, all limits, every script (or
list of scripts) and every initial cache, the model's run ends — there is a fuel from which on
the outcome no longer changes and is not the out-of-fuel marker. The fuel parameter of the
interpreters is therefore only a device to define them; every theorem stated "for every fuel"
speaks about the one outcome the run has.

The bound comes from the mechanisms the property names: `OP_CALL` and the evaluating
instructions raise the call counter and refuse at `callstack_limit`, block bodies are proper
substrings of their tape, a loop runs at most `callstack_limit` iterations, and every read
consumes tape.

Not proved here: that the model's own substring guard (`Err.guard`, which has no counterpart
in the implementation) is unreachable for the 92 real instructions — the theorem allows the run
to end there; the correspondence check would show it as a disagreement.
-/
namespace TV.C07

variable (T : UInt8 → Op) (L : Limits)

theorem wf_initShared (cache : List (CKey × CVal)) : WF (initShared cache) := by
  intro d hd p hp
  simp only [initShared, List.mem_singleton] at hd
  subst hd
  cases hp

/-- **C07.7 every tape run ends**, from every frame and every well-formed state (every state a
    run can reach is well formed: `counts_main`). -/
theorem tape_terminates (fr : Frame) (sh : Shared) (hw : WF sh) :
    ∃ n r, r.isFuel = false ∧ ∀ m, n ≤ m → runTape T L m fr sh = r :=
  runTape_terminates T L fr sh hw

/-- **C07.7 every script run ends**: `run_script` has exactly one outcome. -/
theorem script_terminates (script : Bytes) (cache : List (CKey × CVal)) :
    ∃ n r, r.isFuel = false ∧ ∀ m, n ≤ m → runScript T L m script cache = r :=
  runTape_terminates T L _ _ (wf_initShared cache)

theorem runAuthRest_terminates : ∀ (scripts : List Bytes) (count : Nat) (sh : Shared), WF sh →
    ∃ n r, r.isFuel = false ∧ ∀ m, n ≤ m → runAuthRest T L m scripts count sh = r := by
  intro scripts
  induction scripts with
  | nil => intro count sh _; exact ⟨0, _, rfl, fun _ _ => rfl⟩
  | cons s rest ih =>
    intro count sh hw
    have hw' : WF ({ sh with returned := false } : Shared) := hw
    obtain ⟨n1, r1, hf1, h1⟩ := runTape_terminates T L (topFrame s count) { sh with returned := false } hw'
    cases r1 with
    | err e s' =>
      exact ⟨n1, .err e s', hf1, fun m hm => by simp only [runAuthRest, h1 m hm]⟩
    | ok f s' =>
      have hA := (counts_main T L n1).2.2 (topFrame s count) { sh with returned := false } 0 hw' (Nat.zero_le _)
      rw [h1 n1 (Nat.le_refl _)] at hA
      obtain ⟨n2, r2, hf2, h2⟩ := ih f.count s' hA.1
      refine ⟨max n1 n2, r2, hf2, fun m hm => ?_⟩
      simp only [runAuthRest, h1 m (by omega), h2 m (by omega)]

/-- **C07.7 every authorization ends**: `run_auth_scripts` has exactly one verdict. -/
theorem auth_terminates (scripts : List Bytes) (cache : List (CKey × CVal)) :
    ∃ n v, (runAuthRes T L n scripts cache).isFuel = false ∧ ∀ m, n ≤ m → runAuth T L m scripts cache = v := by
  obtain ⟨n, r, hf, h⟩ := runAuthRest_terminates T L scripts 0 (initShared cache) (wf_initShared cache)
  refine ⟨n, runAuth T L n scripts cache, ?_, fun m hm => ?_⟩
  · show (runAuthRest T L n scripts 0 (initShared cache)).isFuel = false
    rw [h n (Nat.le_refl _)]; exact hf
  · unfold runAuth runAuthRes
    rw [h m hm, h n (Nat.le_refl _)]

def endsInSee : Res → Bool
  | .err (.user .see) _ => true
  | _ => false

/-- Example: a script that would loop forever without the budget (`true loop { true }` =
    `01 2f 0001 01`, call limit 3) ends in the loop-limit error. -/
example : endsInSee (runScript (fun c => if c = 1 then Op.push [0xff] .done else if c = 47 then
      (Op.read 2 fun _ => Op.read 1 fun body => Op.loop body .done) else .fail .see)
      ⟨1024, 1024, 3⟩ 20 [1, 47, 0, 1, 1] []) = true := by decide

end TV.C07
