import Tapeverif.Lemmas.Term
import Tapeverif.Lemmas.NoGuard
import Tapeverif.Lemmas.VMRun
import Tapeverif.Model.Auth
/-!
# C07 — every run ends

"… never … a single loop that does not end": for every op table, all limits, every script (or
list of scripts) and every initial cache, the model's run ends — there is a fuel from which on
the outcome no longer changes and is not the out-of-fuel marker. The fuel parameter of the
interpreters is therefore only a device to define them; every theorem stated "for every fuel"
speaks about the one outcome the run has.

The bound comes from the mechanisms the property names: `OP_CALL` and the evaluating
instructions raise the call counter and refuse at `callstack_limit`, block bodies are proper
substrings of their tape, a loop runs at most `callstack_limit` iterations, and every read
consumes tape.

For the real instruction table (`script_outcome`, `auth_outcome`): the outcome is a normal end or a
Python-visible exception — never one of the model's own markers (out of fuel, the ghost assertion
of C01, the substring guard that keeps the kernel terminating for arbitrary tables, the
uncatchable failure used to state soft-fork safety). `Lemmas/NoGuard.lean` shows by a syntactic
invariant of all 92 instructions (+ NOP) that block bodies are always bytes just read from the
instruction's own tape, so the guard is dead code for them.
-/
namespace TV.C07

variable (T : UInt8 → Op) (L : Limits)

theorem wf_initShared (cache : List (CKey × CVal)) : WF (initShared cache) := by
  intro d hd p hp
  simp only [initShared, List.mem_singleton] at hd
  subst hd
  cases hp

/-- **C07.7 every tape run ends**, from every frame and every well-formed state (every state a
    run can reach is well formed: `counts_main`). -/
theorem tape_terminates (fr : Frame) (sh : Shared) (hw : WF sh) :
    ∃ n r, r.isFuel = false ∧ ∀ m, n ≤ m → runTape T L m fr sh = r :=
  runTape_terminates T L fr sh hw

/-- **C07.7 every script run ends**: `run_script` has exactly one outcome. -/
theorem script_terminates (script : Bytes) (cache : List (CKey × CVal)) :
    ∃ n r, r.isFuel = false ∧ ∀ m, n ≤ m → runScript T L m script cache = r :=
  runTape_terminates T L _ _ (wf_initShared cache)

theorem runAuthRest_terminates : ∀ (scripts : List Bytes) (count : Nat) (sh : Shared), WF sh →
    ∃ n r, r.isFuel = false ∧ ∀ m, n ≤ m → runAuthRest T L m scripts count sh = r := by
  intro scripts
  induction scripts with
  | nil => intro count sh _; exact ⟨0, _, rfl, fun _ _ => rfl⟩
  | cons s rest ih =>
    intro count sh hw
    have hw' : WF ({ sh with returned := false } : Shared) := hw
    obtain ⟨n1, r1, hf1, h1⟩ := runTape_terminates T L (topFrame s count) { sh with returned := false } hw'
    cases r1 with
    | err e s' =>
      exact ⟨n1, .err e s', hf1, fun m hm => by simp only [runAuthRest, h1 m hm]⟩
    | ok f s' =>
      have hA := (counts_main T L n1).2.2 (topFrame s count) { sh with returned := false } 0 hw' (Nat.zero_le _)
      rw [h1 n1 (Nat.le_refl _)] at hA
      obtain ⟨n2, r2, hf2, h2⟩ := ih f.count s' hA.1
      refine ⟨max n1 n2, r2, hf2, fun m hm => ?_⟩
      simp only [runAuthRest, h1 m (by omega), h2 m (by omega)]

/-- **C07.7 every authorization ends**: `run_auth_scripts` has exactly one verdict. -/
theorem auth_terminates (scripts : List Bytes) (cache : List (CKey × CVal)) :
    ∃ n v, (runAuthRes T L n scripts cache).isFuel = false ∧ ∀ m, n ≤ m → runAuth T L m scripts cache = v := by
  obtain ⟨n, r, hf, h⟩ := runAuthRest_terminates T L scripts 0 (initShared cache) (wf_initShared cache)
  refine ⟨n, runAuth T L n scripts cache, ?_, fun m hm => ?_⟩
  · show (runAuthRest T L n scripts 0 (initShared cache)).isFuel = false
    rw [h n (Nat.le_refl _)]; exact hf
  · unfold runAuth runAuthRes
    rw [h m hm, h n (Nat.le_refl _)]

/-! ### the real table: only normal ends and Python-visible exceptions -/

/-- the outcome is a normal end or an exception a Python caller would see -/
def Res.visible : Res → Prop
  | .ok _ _ => True
  | .err (.user _) _ => True
  | .err _ _ => False

theorem bounded_table (H : Hashes) (C : Curve) (cfg : Cfg) (c : UInt8) (B0 : Nat) : Bounded B0 (instrTable H C cfg c) :=
  bounded_instr H C cfg c.toNat .done (by simp [Bounded])

theorem visible_of {r : Res} (hf : r.isFuel = false) (hg : r.isGhost = false) (hn : NG fr r) : Res.visible r := by
  cases r with
  | ok f s => trivial
  | err e s =>
    cases e with
    | user k => trivial
    | fuel => cases hf
    | ghost => cases hg
    | guard => exact absurd rfl hn.1
    | abort => exact absurd rfl hn.2

/-- **C07.7, real table: every script run ends, normally or in a Python-visible exception.** -/
theorem script_outcome (H : Hashes) (C : Curve) (cfg : Cfg) (script : Bytes) (cache : List (CKey × CVal)) :
    ∃ n r, Res.visible r ∧ ∀ m, n ≤ m → runScript (instrTable H C cfg) cfg.lim m script cache = r := by
  obtain ⟨n, r, hf, h⟩ := script_terminates (instrTable H C cfg) cfg.lim script cache
  refine ⟨n, r, ?_, h⟩
  have hp := post_shared cfg.lim (runTape_post (instrTable H C cfg) cfg.lim n (topFrame script 0) (initShared cache) (initShared_inv cfg.lim cache) rfl)
  have hn := (noguard_main (instrTable H C cfg) cfg.lim (bounded_table H C cfg) n).2.2 (topFrame script 0) (initShared cache)
    (Nat.le_refl _) (Nat.lt_succ_self _)
  have hr : runTape (instrTable H C cfg) cfg.lim n (topFrame script 0) (initShared cache) = r := h n (Nat.le_refl _)
  rw [hr] at hp hn
  exact visible_of hf hp.2.2 hn

theorem runAuthRest_ng (H : Hashes) (C : Curve) (cfg : Cfg) (fuel : Nat) : ∀ (scripts : List Bytes) (count : Nat) (sh : Shared),
    match runAuthRest (instrTable H C cfg) cfg.lim fuel scripts count sh with
    | .ok _ _ => True
    | .err e _ => e ≠ .guard ∧ e ≠ .abort := by
  intro scripts
  induction scripts with
  | nil => intro count sh; simp [runAuthRest]
  | cons s rest ih =>
    intro count sh
    simp only [runAuthRest]
    have hn := (noguard_main (instrTable H C cfg) cfg.lim (bounded_table H C cfg) fuel).2.2 (topFrame s count) { sh with returned := false }
      (Nat.le_refl _) (Nat.lt_succ_self _)
    cases hr : runTape (instrTable H C cfg) cfg.lim fuel (topFrame s count) { sh with returned := false } with
    | err e sh' => rw [hr] at hn; exact hn
    | ok fr sh' => exact ih fr.count sh'

/-- **C07.7, real table: every authorization ends with a verdict computed from a normal end or a
    Python-visible exception.** -/
theorem auth_outcome (H : Hashes) (C : Curve) (cfg : Cfg) (scripts : List Bytes) (cache : List (CKey × CVal)) :
    ∃ n r, Res.visible r ∧ ∀ m, n ≤ m → runAuthRes (instrTable H C cfg) cfg.lim m scripts cache = r := by
  obtain ⟨n, r, hf, h⟩ := runAuthRest_terminates (instrTable H C cfg) cfg.lim scripts 0 (initShared cache) (wf_initShared cache)
  refine ⟨n, r, ?_, fun m hm => h m hm⟩
  have hp := runAuthRest_post (instrTable H C cfg) cfg.lim n scripts 0 (initShared cache) (initShared_inv cfg.lim cache)
  have hn := runAuthRest_ng H C cfg n scripts 0 (initShared cache)
  rw [h n (Nat.le_refl _)] at hp hn
  cases r with
  | ok f s => trivial
  | err e s =>
    cases e with
    | user k => trivial
    | fuel => cases hf
    | ghost => have := hp.2.2; cases this
    | guard => exact absurd rfl hn.1
    | abort => exact absurd rfl hn.2

def endsInSee : Res → Bool
  | .err (.user .see) _ => true
  | _ => false

/-- Example: a script that would loop forever without the budget (`true loop { true }` =
    `01 2f 0001 01`, call limit 3) ends in the loop-limit error. -/
example : endsInSee (runScript (fun c => if c = 1 then Op.push [0xff] .done else if c = 47 then
      (Op.read 2 fun _ => Op.read 1 fun body => Op.loop body .done) else .fail .see)
      ⟨1024, 1024, 3⟩ 20 [1, 47, 0, 1, 1] []) = true := by decide

end TV.C07
