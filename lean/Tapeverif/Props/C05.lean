import Tapeverif.Lemmas.BigStep
import Tapeverif.Lemmas.Algebra
import Tapeverif.Lemmas.SigRefine
import Tapeverif.Model.Tools
import Tapeverif.Lemmas.RunInstr
/-! # C05 — taproot: the root binds key and script; key path and script path are exact

Instruction level (`OP_TAPROOT` as an op term of the VM model, executed symbolically with the
big-step rules) and group level (the algebra behind the root and the key-spend scalar). -/
namespace TV.C05

open Instr Tools TV.Algebra

variable (H : Hashes) (C : Curve)

macro "nstep " t:term : tactic => `(tactic| (refine $t; try dsimp only))

/-- what `OP_TAPROOT` recomputes from a `(script, key)` witness: `clamp(sha256(key ‖ sha256(script)))·G + key` -/
def recompute (pubkey script : Bytes) : R Bytes := do
  let sc ← Sodium.clampScalar (H.sha256 (pubkey ++ H.sha256 script)) false
  let pt ← Sodium.derivePoint C sc
  Sodium.aggregatePoints C [pt, pubkey]

/-- **Script path, mismatch.** The pair does not recompute to the root: the instruction pushes
    `00` and continues (`k`); the EVAL step is not reached and, apart from the stack, the state
    is untouched — no instruction of the supplied script ran, and the verdict is false. -/
theorem taproot_script_mismatch (cfg : Cfg) (T : UInt8 → Op) (k : Op) (fr : Frame) (sh : Shared)
    (a : UInt8) (rest root pubkey script point : Bytes) (st : List Bytes) (r : Res)
    (hrest : fr.rest = a :: rest) (hs : sh.stack = root :: pubkey :: script :: st)
    (hroot : root.length = 32) (hpk : pubkey.length = 32)
    (hrc : recompute H C pubkey script = .ok point) (hne : point ≠ root)
    (h1 : 1 ≤ cfg.lim.maxItemSize) (hroom : st.length < cfg.lim.maxItems)
    (hk : Steps T cfg.lim k { fr with rest := rest } { sh with stack := [0x00] :: st } r) :
    Steps T cfg.lim (opTaproot H C cfg k) fr sh r := by
  unfold opTaproot
  nstep Steps.read (by simp [hrest]) ?_
  nstep Steps.pop root (pubkey :: script :: st) hs ?_
  simp only [hroot, ne_eq, not_true_eq_false, ↓reduceIte]
  nstep Steps.peekTop pubkey (script :: st) rfl ?_
  simp only [hpk, ↓reduceIte]
  nstep Steps.pop pubkey (script :: st) rfl ?_
  nstep Steps.pop script st rfl ?_
  have hrc' := hrc
  unfold recompute at hrc'
  rw [hrc']
  simp only [liftR]
  have hb : (point == root) = false := by simpa using hne
  rw [hb]
  simp only [Bool.false_eq_true, ↓reduceIte]
  nstep Steps.push (by simpa using h1) (by simpa using hroom) ?_
  simp only [hrest, List.drop_succ_cons, List.drop_zero]
  exact hk

/-- **Script path, an invalid key** (not a curve point, or the tweak point is the identity):
    the instruction raises that error; nothing runs. -/
theorem taproot_script_invalid (cfg : Cfg) (T : UInt8 → Op) (k : Op) (fr : Frame) (sh : Shared)
    (a : UInt8) (rest root pubkey script : Bytes) (st : List Bytes) (e : ErrKind)
    (hrest : fr.rest = a :: rest) (hs : sh.stack = root :: pubkey :: script :: st)
    (hroot : root.length = 32) (hpk : pubkey.length = 32)
    (hrc : recompute H C pubkey script = .error e) :
    Steps T cfg.lim (opTaproot H C cfg k) fr sh (.err (.user e) { sh with stack := st }) := by
  unfold opTaproot
  nstep Steps.read (by simp [hrest]) ?_
  nstep Steps.pop root (pubkey :: script :: st) hs ?_
  simp only [hroot, ne_eq, not_true_eq_false, ↓reduceIte]
  nstep Steps.peekTop pubkey (script :: st) rfl ?_
  simp only [hpk, ↓reduceIte]
  nstep Steps.pop pubkey (script :: st) rfl ?_
  nstep Steps.pop script st rfl ?_
  have hrc' := hrc
  unfold recompute at hrc'
  rw [hrc']
  simp only [liftR]
  exact Steps.fail _ _ _

/-- **Script path, match.** The pair recomputes to the root: the instruction behaves exactly as
    `OP_EVAL` of the script on the remaining stack, whatever that outcome is. -/
theorem taproot_script_match (cfg : Cfg) (T : UInt8 → Op) (k : Op) (fr : Frame) (sh : Shared)
    (a : UInt8) (rest root pubkey script : Bytes) (st : List Bytes) (r : Res)
    (hrest : fr.rest = a :: rest) (hs : sh.stack = root :: pubkey :: script :: st)
    (hroot : root.length = 32) (hpk : pubkey.length = 32)
    (hrc : recompute H C pubkey script = .ok root)
    (hsz : script.length ≤ cfg.lim.maxItemSize) (hroom : st.length < cfg.lim.maxItems)
    (hk : Steps T cfg.lim (opEval cfg k) { fr with rest := rest } { sh with stack := script :: st } r) :
    Steps T cfg.lim (opTaproot H C cfg k) fr sh r := by
  unfold opTaproot
  nstep Steps.read (by simp [hrest]) ?_
  nstep Steps.pop root (pubkey :: script :: st) hs ?_
  simp only [hroot, ne_eq, not_true_eq_false, ↓reduceIte]
  nstep Steps.peekTop pubkey (script :: st) rfl ?_
  simp only [hpk, ↓reduceIte]
  nstep Steps.pop pubkey (script :: st) rfl ?_
  nstep Steps.pop script st rfl ?_
  have hrc' := hrc
  unfold recompute at hrc'
  rw [hrc']
  simp only [liftR, beq_self_eq_true, ↓reduceIte]
  nstep Steps.push hsz (by simpa using hroom) ?_
  simp only [hrest, List.drop_succ_cons, List.drop_zero]
  exact hk

/-- **Key path.** The item under the root is not 32 bytes long: the instruction is exactly
    `OP_CHECK_SIG <allowed>` with the root as the public key (signature extensions first). -/
theorem taproot_key_path (cfg : Cfg) (T : UInt8 → Op) (k : Op) (fr : Frame) (sh : Shared)
    (a : UInt8) (rest root sig : Bytes) (st : List Bytes) (r : Res)
    (hrest : fr.rest = a :: rest) (hs : sh.stack = root :: sig :: st)
    (hroot : root.length = 32) (hsig : sig.length ≠ 32)
    (h32 : 32 ≤ cfg.lim.maxItemSize) (hroom : st.length + 1 < cfg.lim.maxItems)
    (hk : Steps T cfg.lim (sigExt cfg (checkSigCore H C a.toNat k)) { fr with rest := rest }
            { sh with stack := root :: sig :: st } r) :
    Steps T cfg.lim (opTaproot H C cfg k) fr sh r := by
  unfold opTaproot
  nstep Steps.read (by simp [hrest]) ?_
  nstep Steps.pop root (sig :: st) hs ?_
  simp only [hroot, ne_eq, not_true_eq_false, ↓reduceIte]
  nstep Steps.peekTop sig st rfl ?_
  simp only [hsig, ↓reduceIte]
  nstep Steps.push (by rw [hroot]; exact h32) (by simp; omega) ?_
  simp only [hrest, List.take_succ_cons, List.take_zero, List.drop_succ_cons, List.drop_zero]
  have hn : natOfBytesBE [a] = a.toNat := by simp [natOfBytesBE]
  rw [hn]
  exact hk

/-- … hence, with no signature-extension plugin installed, the key path ends with exactly the
    C02 specification's verdict of `sig` under the **root** as public key on the stack, or with
    exactly its error (`SigPure.checkSig`: 64/65-byte signature, flag permitted by `allowed`,
    Ed25519-valid over the message the flag selects). -/
theorem taproot_key_path_spec (cfg : Cfg) (hno : cfg.sigExts = []) (T : UInt8 → Op) (fr : Frame) (sh : Shared)
    (a : UInt8) (rest root sig : Bytes) (st : List Bytes)
    (hrest : fr.rest = a :: rest) (hs : sh.stack = root :: sig :: st)
    (hroot : root.length = 32) (hsig : sig.length ≠ 32)
    (h32 : 32 ≤ cfg.lim.maxItemSize) (hroom : st.length + 1 < cfg.lim.maxItems) :
    Steps T cfg.lim (opTaproot H C cfg .done) fr sh
      (match SigPure.checkSig H C cfg.lim.maxItemSize sh.cache a.toNat sig root with
       | .ok b => .ok { fr with rest := rest } { sh with stack := boolBytes b :: st }
       | .error e => .err (.user e) { sh with stack := st }) := by
  refine taproot_key_path H C cfg T .done fr sh a rest root sig st _ hrest hs hroot hsig h32 hroom ?_
  unfold sigExt
  rw [hno]
  simp only [runSigExts]
  have href := checkSigCore_refines T cfg.lim H C a.toNat .done 1 { fr with rest := rest }
    { sh with stack := root :: sig :: st } root sig st rfl (by omega) (by omega)
  refine ⟨1 + 13, ?_, ?_⟩
  · rw [href]
    cases SigPure.checkSig H C cfg.lim.maxItemSize sh.cache a.toNat sig root with
    | ok b => simp [runOp]
    | error e => rfl
  · cases SigPure.checkSig H C cfg.lim.maxItemSize sh.cache a.toNat sig root <;> rfl

/-! ### the algebra of the root -/
section
variable {P : Type} [AddCommGroup P] (G : P) (L : ℕ) (hL : L • G = 0)

/-- the builder adds `P + X`, the instruction adds `X + P`: the same root -/
theorem root_builder_eq_vm (Pk X : P) : Pk + X = X + Pk := taproot_root_comm Pk X

include hL in
/-- the key-spend witness signs with `(x + t) mod L`, the secret scalar of the root `x•G + t•G` -/
theorem keyspend_scalar_is_root_secret (x t : ℕ) : ((x + t) % L) • G = x • G + t • G :=
  taproot_keyspend_scalar G L hL x t

include hL in
/-- the untweaked key's scalar is not the root's secret unless the tweak point is the identity -/
theorem untweaked_scalar_is_not_root_secret (x t : ℕ) (ht : t • G ≠ 0) :
    (x % L) • G ≠ x • G + t • G := by
  rw [smul_mod G L hL]
  intro h
  apply ht
  have : x • G + 0 = x • G + t • G := by rw [add_zero]; exact h
  exact (add_left_cancel this).symm
end

/-- the model's builder root is the instruction's recomputation with the operands of the final
    addition exchanged (`aggregatePoints [pk, X]` vs `[X, pk]`) — the byte-level counterpart of
    `root_builder_eq_vm`; the two are compared on concrete inputs on every run -/
theorem builder_root_unfold (pk script : Bytes) :
    taprootRoot H C pk (H.sha256 script) =
      (do let t ← Sodium.clampScalar (H.sha256 (pk ++ H.sha256 script)) false
          let X ← Sodium.derivePoint C t
          Sodium.aggregatePoints C [pk, X]) := rfl

/-! ### the lock (`push <root> taproot <flags>`), executed symbolically -/

/-- the bytes of a (native) taproot lock for a given root -/
def tapLock (root : Bytes) (flags : Nat) : Bytes := pushB root ++ (opc 91 ++ opc flags)

theorem taprootLock_bytes (pk commitment root : Bytes) (flags : Nat) (h : taprootRoot H C pk commitment = .ok root) :
    taprootLock H C pk commitment flags = .ok (tapLock root flags) := by
  unfold taprootLock tapLock
  rw [h]
  simp [bind, Except.bind, pure, Except.pure, List.append_assoc]

/-- **C05, the lock, key path: exact outcome.** A witness that leaves a non-32-byte item `sig` on
    top: the lock ends with exactly the C02 verdict of `sig` under the **root** as public key
    with the lock's permitted flags. -/
theorem tapLock_keypath_run (cfg : Cfg) (hno : cfg.sigExts = []) (root sig : Bytes) (flags : Nat) (st : List Bytes) (sh : Shared) (count : Nat)
    (hroot : root.length = 32) (hsig : sig.length ≠ 32) (hfl : flags < 256)
    (hs : sh.stack = sig :: st) (hr : sh.returned = false)
    (h32 : 32 ≤ cfg.lim.maxItemSize) (hroom : st.length + 2 ≤ cfg.lim.maxItems) :
    Ends (instrTable H C cfg) cfg.lim (topFrame (tapLock root flags) count) sh
      (fun r => Res.summary r = (match SigPure.checkSig H C cfg.lim.maxItemSize sh.cache flags sig root with
          | .ok b => .ok (boolBytes b :: st)
          | .error e => .error (.user e))) := by
  unfold topFrame tapLock
  generalize hl : (pushB root ++ (opc 91 ++ opc flags)).length = len
  have hcap : len < len + 1 := by omega
  refine Ends.step (fun r h => run_pushB H C cfg _ sh root _ r (by omega) (by omega) rfl hcap hr (by omega) (by rw [hs]; simp; omega) h) ?_
  dsimp only
  have hspec := taproot_key_path_spec H C cfg hno (instrTable H C cfg)
    { rest := [UInt8.ofNat flags], count := count, fn := none, dict := 0, len0 := len, cap := len + 1 }
    { sh with stack := root :: sh.stack } (UInt8.ofNat flags) [] root sig st rfl (by simp [hs]) hroot hsig h32 (by omega)
  have hfl' : (UInt8.ofNat flags).toNat = flags := by simp [UInt8.toNat_ofNat', Nat.mod_eq_of_lt hfl]
  rw [hfl'] at hspec
  dsimp only at hspec
  cases hc : SigPure.checkSig H C cfg.lim.maxItemSize sh.cache flags sig root with
  | error e =>
    rw [hc] at hspec
    exact ⟨_, TSteps.cons_err 91 _ (by simp [opc]) hcap hr hspec, rfl⟩
  | ok b =>
    rw [hc] at hspec
    exact ⟨_, TSteps.cons_ok 91 _ (by simp [opc]) hcap hr hspec (TSteps.nil rfl), rfl⟩

/-- **C05, the lock, script path, a pair that does not recompute to the root**: the lock leaves
    `00` — the verdict is false — and the supplied script is never evaluated (only the stack changed). -/
theorem tapLock_scriptpath_mismatch (cfg : Cfg) (root pubkey script point : Bytes) (flags : Nat) (st : List Bytes) (sh : Shared) (count : Nat)
    (hroot : root.length = 32) (hpk : pubkey.length = 32)
    (hrc : recompute H C pubkey script = .ok point) (hne : point ≠ root)
    (hs : sh.stack = pubkey :: script :: st) (hr : sh.returned = false)
    (h32 : 32 ≤ cfg.lim.maxItemSize) (hroom : st.length + 3 ≤ cfg.lim.maxItems) :
    TSteps (instrTable H C cfg) cfg.lim (topFrame (tapLock root flags) count) sh
      (.ok { rest := [], count := count, fn := none, dict := 0, len0 := (tapLock root flags).length, cap := (tapLock root flags).length + 1 }
           { sh with stack := [0x00] :: st }) := by
  unfold topFrame tapLock
  generalize hl : (pushB root ++ (opc 91 ++ opc flags)).length = len
  have hcap : len < len + 1 := by omega
  refine run_pushB H C cfg _ sh root _ _ (by omega) (by omega) rfl hcap hr (by omega) (by rw [hs]; simp; omega) ?_
  dsimp only
  have hm := taproot_script_mismatch H C cfg (instrTable H C cfg) .done
    { rest := [UInt8.ofNat flags], count := count, fn := none, dict := 0, len0 := len, cap := len + 1 }
    { sh with stack := root :: sh.stack } (UInt8.ofNat flags) [] root pubkey script point st _ rfl (by simp [hs]) hroot hpk hrc hne (by omega) (by omega)
    (Steps.done _ _)
  exact TSteps.cons_ok 91 _ (by simp [opc]) hcap hr hm (TSteps.nil rfl)


end TV.C05
