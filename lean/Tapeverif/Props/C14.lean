import Tapeverif.Lemmas.RunInstr
import Tapeverif.Props.C04
/-! # C14 — delegation: certificate serialisation round-trips for every field value -/
namespace TV.C14

open Instr Tools

variable (H : Hashes) (C : Curve)

/-- C14 (serialisation): for every certificate with a 32-byte delegate key, timestamps below
    2^32 (the builder admits `< 2^31`), any may-delegate flag and a 64-byte signature, unpacking
    the packed form returns exactly the certificate; the packed form is 105 bytes. -/
theorem cert_pack_unpack (c : Certificate) (hd : c.delegate.length = 32)
    (hb : c.beginTs < 2 ^ 32) (he : c.endTs < 2 ^ 32) (hs : c.signature.length = 64) :
    (Certificate.pack c).length = 105 ∧ Certificate.unpack (Certificate.pack c) = some c := by
  have hlen4 : ∀ n, (pad4 n).length = 4 := fun n => natToBytesBE_length 4 n
  have hpack : Certificate.pack c =
      c.delegate ++ (pad4 c.beginTs ++ (pad4 c.endTs ++ ([if c.may then 0xff else 0x00] ++ c.signature))) := by
    simp [Certificate.pack, Certificate.preimage, List.append_assoc]
  have hl : (Certificate.pack c).length = 105 := by
    rw [hpack]; simp [hd, hlen4, hs]
  refine ⟨hl, ?_⟩
  unfold Certificate.unpack
  rw [if_pos hl, hpack]
  have h256 : (256 : Nat) ^ 4 = 2 ^ 32 := by decide
  have t1 : (c.delegate ++ (pad4 c.beginTs ++ (pad4 c.endTs ++ ([if c.may then 0xff else 0x00] ++ c.signature)))).take 32 = c.delegate := by
    rw [← hd]; simp
  have d1 : (c.delegate ++ (pad4 c.beginTs ++ (pad4 c.endTs ++ ([if c.may then 0xff else 0x00] ++ c.signature)))).drop 32
      = pad4 c.beginTs ++ (pad4 c.endTs ++ ([if c.may then 0xff else 0x00] ++ c.signature)) := by
    rw [← hd]; simp
  have d2 : (c.delegate ++ (pad4 c.beginTs ++ (pad4 c.endTs ++ ([if c.may then 0xff else 0x00] ++ c.signature)))).drop 36
      = pad4 c.endTs ++ ([if c.may then 0xff else 0x00] ++ c.signature) := by
    rw [show 36 = 32 + 4 by rfl, ← List.drop_drop, d1]
    rw [← hlen4 c.beginTs]; simp
  have d3 : (c.delegate ++ (pad4 c.beginTs ++ (pad4 c.endTs ++ ([if c.may then 0xff else 0x00] ++ c.signature)))).drop 40
      = [if c.may then 0xff else 0x00] ++ c.signature := by
    rw [show 40 = 36 + 4 by rfl, ← List.drop_drop, d2]
    rw [← hlen4 c.endTs]; simp
  have d4 : (c.delegate ++ (pad4 c.beginTs ++ (pad4 c.endTs ++ ([if c.may then 0xff else 0x00] ++ c.signature)))).drop 41
      = c.signature := by
    rw [show 41 = 40 + 1 by rfl, ← List.drop_drop, d3]; simp
  rw [t1, d1, d2, d3, d4]
  have tb : (pad4 c.beginTs ++ (pad4 c.endTs ++ ([if c.may then 0xff else 0x00] ++ c.signature))).take 4 = pad4 c.beginTs := by
    rw [← hlen4 c.beginTs]; simp
  have te : (pad4 c.endTs ++ ([if c.may then 0xff else 0x00] ++ c.signature)).take 4 = pad4 c.endTs := by
    rw [← hlen4 c.endTs]; simp
  rw [tb, te]
  unfold pad4
  rw [natOf_natTo, natOf_natTo, h256, Nat.mod_eq_of_lt hb, Nat.mod_eq_of_lt he]
  cases c with
  | mk d b e m s =>
    cases m <;> simp

/-- the packed may-delegate byte is 0xff exactly for delegable certificates -/
theorem cert_may_byte (c : Certificate) (hd : c.delegate.length = 32) :
    (Certificate.preimage c)[40]? = some (if c.may then 0xff else 0x00) := by
  have hlen4 : ∀ n, (pad4 n).length = 4 := fun n => natToBytesBE_length 4 n
  unfold Certificate.preimage
  rw [List.getElem?_append_right (by simp [hd, hlen4])]
  simp [hd, hlen4]

/-- Non-vacuity -/
example : (Certificate.unpack (Certificate.pack ⟨List.replicate 32 7, 5, 2^31 - 1, true, List.replicate 64 9⟩)).map (·.endTs) = some (2^31 - 1) := by
  decide

/-! ### the single-certificate lock, executed symbolically -/

/-- `make_delegate_key_lock`, instruction by instruction -/
def delegateKeyLockSeq (root : Bytes) (flags : Nat) : Bytes :=
      Tools.pushInt 41 ++ (SPLIT ++ (writeCache "s" 1 ++ (DUP ++ (Tools.pushInt 40 ++ (SPLIT ++ (POP0 ++
      (Tools.pushInt 36 ++ (SPLIT ++ (writeCache "e" 1 ++ (Tools.pushInt 32 ++ (SPLIT ++ (writeCache "b" 1 ++
      (writeCache "d" 1 ++ (readCache "b" ++ (opc CTSV ++ (readCache "e" ++ (opc CTS ++ (opc NOT ++ (opc VERIFY ++
      (readCache "s" ++ (SWAP2 ++ (pushB root ++ (CSS ++ (opc VERIFY ++ (readCache "d" ++ CHECK_SIG flags)))))))))))))))))))))))))

theorem delegateKeyLock_bytes (root : Bytes) (flags : Nat) :
    delegateKeyLock root flags = delegateKeyLockSeq root flags := by
  unfold delegateKeyLock delegateKeyLockSeq certChecks
  generalize Tools.pushInt 41 = p41
  generalize Tools.pushInt 40 = p40
  generalize Tools.pushInt 36 = p36
  generalize Tools.pushInt 32 = p32
  generalize pushB root = pr
  simp only [Bool.false_eq_true, ↓reduceIte, List.append_assoc]


/-- the C14 acceptance condition of the single-certificate lock, as a function of its inputs -/
def delegateSpec (cfg : Cfg) (cache : List (CKey × CVal)) (root dk b4 e4 csig sig : Bytes) (m : UInt8) (flags : Nat)
    (t thr : Int) (st : List Bytes) : Except Err (List Bytes) :=
  if C16.tsAccept t cfg.now thr b4 = false then .error (.user .see)
  else if C16.tsAccept t cfg.now thr e4 = true then .error (.user .see)
  else if Sodium.verify H C root (dk ++ b4 ++ e4 ++ [m]) csig = false then .error (.user .see)
  else match SigPure.checkSig H C cfg.lim.maxItemSize cache flags sig dk with
    | .ok b => .ok (boolBytes b :: st)
    | .error e => .error (.user e)

set_option maxHeartbeats 1600000 in
/-- **C14, single-certificate lock, exact acceptance condition.** For every root key, certificate
    fields, certificate signature, final signature, cache, timestamp, clock, threshold and limits
    (no signature-extension plugin): running `make_delegate_key_lock(root, flags)` on a stack
    `cert :: sig :: st` ends with exactly `delegateSpec`: an error unless `t` is accepted against
    `begin` (t ≥ begin, not ahead of the clock by the slack or more), *not* accepted against `end`,
    and the certificate signature verifies under the root over (delegate ‖ begin ‖ end ‖ may);
    then exactly the C02 verdict of the final signature under the **delegate** key. -/
theorem delegateKeyLock_run (cfg : Cfg) (hno : cfg.sigExts = []) (root dk b4 e4 csig sig : Bytes) (m : UInt8)
    (flags : Nat) (st : List Bytes) (sh : Shared) (count : Nat) (t thr : Int)
    (hroot : root.length = 32) (hdk : dk.length = 32) (hb4 : b4.length = 4) (he4 : e4.length = 4) (hcs : csig.length = 64)
    (hfl : flags < 256)
    (hs : sh.stack = (dk ++ b4 ++ e4 ++ [m] ++ csig) :: sig :: st) (hr : sh.returned = false)
    (ht : lookupC C16.tsKey sh.cache = some (.atom (.int t))) (hthr : cfg.tsThreshold = some thr)
    (hsz : 105 ≤ cfg.lim.maxItemSize) (hroom : st.length + 6 ≤ cfg.lim.maxItems) :
    Ends (instrTable H C cfg) cfg.lim (topFrame (delegateKeyLock root flags) count) sh
      (fun r => Res.summary r = delegateSpec H C cfg sh.cache root dk b4 e4 csig sig m flags t thr st) := by
  rw [delegateKeyLock_bytes]
  unfold topFrame
  generalize hlen : (delegateKeyLockSeq root flags).length = len
  unfold delegateKeyLockSeq
  have hcap : len < len + 1 := by omega
  have h41 : Tools.pushInt 41 = pushB [41] := by decide
  have h40 : Tools.pushInt 40 = pushB [40] := by decide
  have h36 : Tools.pushInt 36 = pushB [36] := by decide
  have h32 : Tools.pushInt 32 = pushB [32] := by decide
  rw [h41, h40, h36, h32]
  -- the certificate's parts
  generalize hp36 : dk ++ b4 = p36 at *
  generalize hp40 : p36 ++ e4 = p40 at *
  generalize hpre : p40 ++ [m] = pre at *
  have l36 : p36.length = 36 := by subst hp36; simp [hdk, hb4]
  have l40 : p40.length = 40 := by subst hp40; simp [l36, he4]
  have l41 : pre.length = 41 := by subst hpre; simp [l40]
  have lcert : (pre ++ csig).length = 105 := by simp [l41, hcs]
  have hM := cfg.lim.maxItemSize
  -- push 41, split: [csig, pre, sig]
  refine Ends.step (fun r h => run_pushB H C cfg _ sh [41] _ r (by decide) (by decide) rfl hcap hr (by simp; omega) (by rw [hs]; simp; omega) h) ?_
  dsimp only
  refine Ends.step (fun r h => run_split H C cfg _ _ _ 41 [41] (pre ++ csig) (sig :: st) r rfl hcap hr (by rw [hs]) (by decide) (by omega) (by omega) (by simp; omega) h) ?_
  dsimp only
  rw [take_append_len _ _ _ l41, drop_append_len _ _ _ l41]
  -- s := csig
  refine Ends.step (fun r h => run_writeCache1 H C cfg _ _ _ (asciiBytes "s") csig (pre :: sig :: st) r rfl (by decide) (by decide) hcap hr rfl h) ?_
  dsimp only
  -- dup; push 40; split; pop0
  refine Ends.step (fun r h => run_dup H C cfg _ _ _ pre (sig :: st) r rfl hcap hr rfl (by omega) (by simp; omega) h) ?_
  dsimp only
  refine Ends.step (fun r h => run_pushB H C cfg _ _ [40] _ r (by decide) (by decide) rfl hcap hr (by simp; omega) (by simp; omega) h) ?_
  dsimp only
  refine Ends.step (fun r h => run_split H C cfg _ _ _ 40 [40] pre (pre :: sig :: st) r rfl hcap hr rfl (by decide) (by omega) (by omega) (by simp; omega) h) ?_
  dsimp only
  rw [← hpre, take_append_len _ _ _ l40, drop_append_len _ _ _ l40, hpre]
  refine Ends.step (fun r h => run_pop0 H C cfg _ _ _ [m] (p40 :: pre :: sig :: st) r rfl hcap hr rfl h) ?_
  dsimp only
  -- push 36; split; e := e4
  refine Ends.step (fun r h => run_pushB H C cfg _ _ [36] _ r (by decide) (by decide) rfl hcap hr (by simp; omega) (by simp; omega) h) ?_
  dsimp only
  refine Ends.step (fun r h => run_split H C cfg _ _ _ 36 [36] p40 (pre :: sig :: st) r rfl hcap hr rfl (by decide) (by omega) (by omega) (by simp; omega) h) ?_
  dsimp only
  rw [← hp40, take_append_len _ _ _ l36, drop_append_len _ _ _ l36]
  refine Ends.step (fun r h => run_writeCache1 H C cfg _ _ _ (asciiBytes "e") e4 (p36 :: pre :: sig :: st) r rfl (by decide) (by decide) hcap hr rfl h) ?_
  dsimp only
  -- push 32; split; b := b4; d := dk
  refine Ends.step (fun r h => run_pushB H C cfg _ _ [32] _ r (by decide) (by decide) rfl hcap hr (by simp; omega) (by simp; omega) h) ?_
  dsimp only
  refine Ends.step (fun r h => run_split H C cfg _ _ _ 32 [32] p36 (pre :: sig :: st) r rfl hcap hr rfl (by decide) (by omega) (by omega) (by simp; omega) h) ?_
  dsimp only
  rw [← hp36, take_append_len _ _ _ hdk, drop_append_len _ _ _ hdk]
  refine Ends.step (fun r h => run_writeCache1 H C cfg _ _ _ (asciiBytes "b") b4 (dk :: pre :: sig :: st) r rfl (by decide) (by decide) hcap hr rfl h) ?_
  dsimp only
  refine Ends.step (fun r h => run_writeCache1 H C cfg _ _ _ (asciiBytes "d") dk (pre :: sig :: st) r rfl (by decide) (by decide) hcap hr rfl h) ?_
  dsimp only
  -- the cache now holds d, b, e, P, s above the embedder's entries
  generalize hcache : ((CKey.byt (asciiBytes "d"), CVal.list [Atom.bytes dk]) :: (CKey.byt (asciiBytes "b"), CVal.list [Atom.bytes b4]) ::
      (CKey.byt (asciiBytes "e"), CVal.list [Atom.bytes e4]) :: (CKey.byt pKey, CVal.list [Atom.bytes [m]]) ::
      (CKey.byt (asciiBytes "s"), CVal.list [Atom.bytes csig]) :: sh.cache) = cache'
  have hts : lookupC C16.tsKey cache' = some (.atom (.int t)) := by
    subst hcache
    simp only [C16.tsKey, lookupC_str_cons_byt]
    exact ht
  have hlb : lookupC (.byt (asciiBytes "b")) cache' = some (.list [.bytes b4]) := by
    subst hcache
    rw [lookupC_byt_cons_ne _ _ _ _ (by decide), lookupC_byt_cons_eq]
  have hle : lookupC (.byt (asciiBytes "e")) cache' = some (.list [.bytes e4]) := by
    subst hcache
    rw [lookupC_byt_cons_ne _ _ _ _ (by decide), lookupC_byt_cons_ne _ _ _ _ (by decide), lookupC_byt_cons_eq]
  have hls : lookupC (.byt (asciiBytes "s")) cache' = some (.list [.bytes csig]) := by
    subst hcache
    rw [lookupC_byt_cons_ne _ _ _ _ (by decide), lookupC_byt_cons_ne _ _ _ _ (by decide), lookupC_byt_cons_ne _ _ _ _ (by decide),
      lookupC_byt_cons_ne _ _ _ _ (by decide), lookupC_byt_cons_eq]
  have hld : lookupC (.byt (asciiBytes "d")) cache' = some (.list [.bytes dk]) := by
    subst hcache
    rw [lookupC_byt_cons_eq]
  have hcs' : ∀ a s v, SigPure.checkSig H C cfg.lim.maxItemSize cache' a s v = SigPure.checkSig H C cfg.lim.maxItemSize sh.cache a s v := by
    intro a s v
    subst hcache
    simp only [checkSig_cons_byt]
  have hb4ne : b4 ≠ [] := by intro h; rw [h] at hb4; simp at hb4
  have he4ne : e4 ≠ [] := by intro h; rw [h] at he4; simp at he4
  -- begin ≤ t (and not ahead of the clock)
  refine Ends.step (fun r h => run_readCache1 H C cfg _ _ _ (asciiBytes "b") b4 r rfl (by decide) (by decide) hcap hr hlb (by omega) (by simp; omega) h) ?_
  dsimp only
  unfold delegateSpec
  rw [hp36, hp40, hpre]
  by_cases hab : C16.tsAccept t cfg.now thr b4 = true
  case neg =>
    have hab' : C16.tsAccept t cfg.now thr b4 = false := by simpa using hab
    exact ⟨_, run_ctsv_fail H C cfg _ _ _ b4 (pre :: sig :: st) t thr rfl hcap hr rfl hb4ne hts hthr (by omega) (by simp; omega) hab',
      by simp [Res.summary, hab']⟩
  refine Ends.step (fun r h => run_ctsv_ok H C cfg _ _ _ b4 (pre :: sig :: st) t thr r rfl hcap hr rfl hb4ne hts hthr (by omega) (by simp; omega) hab h) ?_
  dsimp only
  -- not (end ≤ t …)
  refine Ends.step (fun r h => run_readCache1 H C cfg _ _ _ (asciiBytes "e") e4 r rfl (by decide) (by decide) hcap hr hle (by omega) (by simp; omega) h) ?_
  dsimp only
  refine Ends.step (fun r h => run_cts H C cfg _ _ _ e4 (pre :: sig :: st) t thr r rfl hcap hr rfl he4ne hts hthr (by omega) (by simp; omega) h) ?_
  dsimp only
  refine Ends.step (fun r h => run_not H C cfg _ _ _ (boolBytes (C16.tsAccept t cfg.now thr e4)) (pre :: sig :: st) r rfl hcap hr rfl
    (by cases C16.tsAccept t cfg.now thr e4 <;> simp [boolBytes] <;> omega) (by simp; omega) h) ?_
  dsimp only
  by_cases hae : C16.tsAccept t cfg.now thr e4 = true
  · exact ⟨_, run_verify_false H C cfg _ _ _ (notBytes (boolBytes (C16.tsAccept t cfg.now thr e4))) (pre :: sig :: st) rfl hcap hr rfl
        (by rw [hae]; decide), by simp [Res.summary, hab, hae]⟩
  have hae' : C16.tsAccept t cfg.now thr e4 = false := by simpa using hae
  refine Ends.step (fun r h => run_verify_true H C cfg _ _ _ (notBytes (boolBytes (C16.tsAccept t cfg.now thr e4))) (pre :: sig :: st) r rfl hcap hr rfl
    (by rw [hae']; decide) h) ?_
  dsimp only
  -- certificate signature under the root
  refine Ends.step (fun r h => run_readCache1 H C cfg _ _ _ (asciiBytes "s") csig r rfl (by decide) (by decide) hcap hr hls (by omega) (by simp; omega) h) ?_
  dsimp only
  refine Ends.step (fun r h => run_swap2 H C cfg _ _ _ csig pre (sig :: st) r rfl hcap hr rfl (by omega) (by omega) (by simp; omega) h) ?_
  dsimp only
  refine Ends.step (fun r h => run_pushB H C cfg _ _ root _ r (by omega) (by omega) rfl hcap hr (by omega) (by simp; omega) h) ?_
  dsimp only
  refine Ends.step (fun r h => run_css H C cfg _ _ _ root pre csig (sig :: st) r rfl hcap hr rfl hroot hcs (by omega) (by simp; omega) h) ?_
  dsimp only
  by_cases hv : Sodium.verify H C root pre csig = true
  case neg =>
    have hv' : Sodium.verify H C root pre csig = false := by simpa using hv
    exact ⟨_, run_verify_false H C cfg _ _ _ (boolBytes (Sodium.verify H C root pre csig)) (sig :: st) rfl hcap hr rfl
        (by rw [hv']; decide), by simp [Res.summary, hab, hae', hv']⟩
  refine Ends.step (fun r h => run_verify_true H C cfg _ _ _ (boolBytes (Sodium.verify H C root pre csig)) (sig :: st) r rfl hcap hr rfl
    (by rw [hv]; decide) h) ?_
  dsimp only
  -- final signature under the delegate key
  refine Ends.step (fun r h => run_readCache1 H C cfg _ _ _ (asciiBytes "d") dk r rfl (by decide) (by decide) hcap hr hld (by omega) (by simp; omega) h) ?_
  dsimp only
  refine ⟨_, run_checksig_last H C cfg hno _ _ flags dk sig st rfl hfl hcap hr rfl (by omega) (by omega), ?_⟩
  dsimp only
  rw [hcs']
  simp only [hab, hae', hv, Bool.true_eq_false, Bool.false_eq_true, ↓reduceIte]
  cases SigPure.checkSig H C cfg.lim.maxItemSize sh.cache flags sig dk <;> rfl


/-- the two window instructions together accept exactly `begin ≤ t < end` with `t` not ahead of
    the verifier clock by the slack threshold or more -/
theorem window_iff (t now thr : Int) (b4 e4 : Bytes) :
    (C16.tsAccept t now thr b4 = true ∧ C16.tsAccept t now thr e4 = false) ↔
      ((natOfBytesBE b4 : Int) ≤ t ∧ t < (natOfBytesBE e4 : Int) ∧ (thr ≤ 0 ∨ t - now < thr)) := by
  unfold C16.tsAccept
  simp only [decide_eq_true_eq, decide_eq_false_iff_not]
  constructor
  · intro ⟨⟨h1, h2⟩, h3⟩
    refine ⟨h1, ?_, h2⟩
    by_cases h : t < (natOfBytesBE e4 : Int)
    · exact h
    · exact absurd ⟨by omega, h2⟩ h3
  · intro ⟨h1, h2, h3⟩
    exact ⟨⟨h1, h3⟩, fun ⟨h4, _⟩ => by omega⟩

/-- **C14, single-certificate lock: accepted exactly when the property's sentence holds.** With the
    witness having left exactly `[cert, sig]`, the lock ends without error on the stack `[ff]` iff
    `begin ≤ t < end`, `t` is not ahead of the clock by the slack or more, the certificate is signed
    by the root key over (delegate ‖ begin ‖ end ‖ may), and the final signature passes the C02
    specification under the delegate key. -/
theorem delegateKeyLock_accepts_iff (cfg : Cfg) (hno : cfg.sigExts = []) (root dk b4 e4 csig sig : Bytes) (m : UInt8)
    (flags : Nat) (sh : Shared) (count : Nat) (t thr : Int)
    (hroot : root.length = 32) (hdk : dk.length = 32) (hb4 : b4.length = 4) (he4 : e4.length = 4) (hcs : csig.length = 64)
    (hfl : flags < 256)
    (hs : sh.stack = [dk ++ b4 ++ e4 ++ [m] ++ csig, sig]) (hr : sh.returned = false)
    (ht : lookupC C16.tsKey sh.cache = some (.atom (.int t))) (hthr : cfg.tsThreshold = some thr)
    (hsz : 105 ≤ cfg.lim.maxItemSize) (hroom : 6 ≤ cfg.lim.maxItems) :
    (∃ r, TSteps (instrTable H C cfg) cfg.lim (topFrame (delegateKeyLock root flags) count) sh r ∧
        Res.summary r = .ok [[0xff]]) ↔
      ((natOfBytesBE b4 : Int) ≤ t ∧ t < (natOfBytesBE e4 : Int) ∧ (thr ≤ 0 ∨ t - cfg.now < thr) ∧
        Sodium.verify H C root (dk ++ b4 ++ e4 ++ [m]) csig = true ∧
        SigPure.checkSig H C cfg.lim.maxItemSize sh.cache flags sig dk = .ok true) := by
  obtain ⟨r0, hr0, hsum⟩ := delegateKeyLock_run H C cfg hno root dk b4 e4 csig sig m flags [] sh count t thr
    hroot hdk hb4 he4 hcs hfl hs hr ht hthr hsz (by simpa using hroom)
  have hw := window_iff t cfg.now thr b4 e4
  unfold delegateSpec at hsum
  generalize hpre : dk ++ b4 ++ e4 ++ [m] = pre at *
  generalize hA : C16.tsAccept t cfg.now thr b4 = A at *
  generalize hE : C16.tsAccept t cfg.now thr e4 = E at *
  generalize hV : Sodium.verify H C root pre csig = V at *
  constructor
  · intro ⟨r, hrun, hok⟩
    have : r = r0 := TSteps.det hrun hr0
    subst this
    rw [hsum] at hok
    cases A with
    | false => simp only [↓reduceIte] at hok; cases hok
    | true =>
      cases E with
      | true => simp only [Bool.true_eq_false, ↓reduceIte] at hok; cases hok
      | false =>
        cases V with
        | false => simp only [Bool.true_eq_false, Bool.false_eq_true, ↓reduceIte] at hok; cases hok
        | true =>
          simp only [Bool.true_eq_false, Bool.false_eq_true, ↓reduceIte] at hok
          obtain ⟨h1, h2, h3⟩ := hw.mp ⟨rfl, rfl⟩
          refine ⟨h1, h2, h3, rfl, ?_⟩
          cases hc : SigPure.checkSig H C cfg.lim.maxItemSize sh.cache flags sig dk with
          | error e => rw [hc] at hok; cases hok
          | ok b =>
            rw [hc] at hok
            cases b with
            | true => rfl
            | false => simp [boolBytes] at hok
  · intro ⟨h1, h2, h3, hv, hc⟩
    obtain ⟨hab, hae⟩ := hw.mpr ⟨h1, h2, h3⟩
    refine ⟨r0, hr0, ?_⟩
    rw [hsum, hab, hae, hv, hc]
    simp [boolBytes]


/-- … stated for a `Certificate`: the lock accepts `[pack c, sig]` exactly when
    `c.begin ≤ t < c.end`, `t` is within the clock slack, `c` is signed by the root key over its
    preimage, and `sig` passes the C02 specification under `c.delegate`. -/
theorem delegateKeyLock_accepts_cert (cfg : Cfg) (hno : cfg.sigExts = []) (root sig : Bytes) (c : Certificate)
    (flags : Nat) (sh : Shared) (count : Nat) (t thr : Int)
    (hroot : root.length = 32) (hd : c.delegate.length = 32) (hb : c.beginTs < 2 ^ 32) (he : c.endTs < 2 ^ 32)
    (hcs : c.signature.length = 64) (hfl : flags < 256)
    (hs : sh.stack = [Certificate.pack c, sig]) (hr : sh.returned = false)
    (ht : lookupC C16.tsKey sh.cache = some (.atom (.int t))) (hthr : cfg.tsThreshold = some thr)
    (hsz : 105 ≤ cfg.lim.maxItemSize) (hroom : 6 ≤ cfg.lim.maxItems) :
    (∃ r, TSteps (instrTable H C cfg) cfg.lim (topFrame (delegateKeyLock root flags) count) sh r ∧
        Res.summary r = .ok [[0xff]]) ↔
      ((c.beginTs : Int) ≤ t ∧ t < (c.endTs : Int) ∧ (thr ≤ 0 ∨ t - cfg.now < thr) ∧
        Sodium.verify H C root (Certificate.preimage c) c.signature = true ∧
        SigPure.checkSig H C cfg.lim.maxItemSize sh.cache flags sig c.delegate = .ok true) := by
  have h256 : (256 : Nat) ^ 4 = 2 ^ 32 := by decide
  have hnb : natOfBytesBE (pad4 c.beginTs) = c.beginTs := by
    unfold pad4; rw [natOf_natTo, h256, Nat.mod_eq_of_lt hb]
  have hne : natOfBytesBE (pad4 c.endTs) = c.endTs := by
    unfold pad4; rw [natOf_natTo, h256, Nat.mod_eq_of_lt he]
  have := delegateKeyLock_accepts_iff H C cfg hno root c.delegate (pad4 c.beginTs) (pad4 c.endTs) c.signature sig
    (if c.may then 0xff else 0x00) flags sh count t thr hroot hd (natToBytesBE_length 4 _) (natToBytesBE_length 4 _) hcs hfl
    (by rw [hs]; rfl) hr ht hthr hsz hroom
  rw [hnb, hne] at this
  exact this

/-! ### the chain lock, one level at a time -/

/-- the decision at the end of one chain level: `if ( @c and ) { @d call d0 } else { @d check_sig <flags> }` -/
def chainDecide (flags : Nat) : Bytes :=
  readCache "c" ++ (opc 88 ++ ifElse (readCache "d" ++ CALL 0) (readCache "d" ++ CHECK_SIG flags))

/-- the body of `def 0` of `make_delegate_key_chain_lock`, instruction by instruction -/
def chainBodySeq (flags : Nat) : Bytes :=
  writeCache "r" 1 ++ (Tools.pushInt 41 ++ (SPLIT ++ (writeCache "s" 1 ++ (DUP ++ (Tools.pushInt 40 ++ (SPLIT ++ (writeCache "c" 1 ++
  (Tools.pushInt 36 ++ (SPLIT ++ (writeCache "e" 1 ++ (Tools.pushInt 32 ++ (SPLIT ++ (writeCache "b" 1 ++
  (writeCache "d" 1 ++ (readCache "b" ++ (opc CTSV ++ (readCache "e" ++ (opc CTS ++ (opc NOT ++ (opc VERIFY ++
  (readCache "s" ++ (SWAP2 ++ (readCache "r" ++ (CSS ++ (opc VERIFY ++ chainDecide flags)))))))))))))))))))))))))

theorem chainLock_bytes (root : Bytes) (flags : Nat) :
    delegateKeyChainLock root flags = defOp 0 (chainBodySeq flags) ++ (pushB root ++ CALL 0) := by
  unfold delegateKeyChainLock chainBodySeq chainDecide certChecks
  generalize Tools.pushInt 41 = p41
  generalize Tools.pushInt 40 = p40
  generalize Tools.pushInt 36 = p36
  generalize Tools.pushInt 32 = p32
  generalize pushB root = pr
  simp only [↓reduceIte, List.append_assoc]

/-- the checks one chain level makes on its certificate, under the authorizing key `auth` -/
def levelChecks (cfg : Cfg) (auth dk b4 e4 csig : Bytes) (m : UInt8) (t thr : Int) : Prop :=
  C16.tsAccept t cfg.now thr b4 = true ∧ C16.tsAccept t cfg.now thr e4 = false ∧
    Sodium.verify H C auth (dk ++ b4 ++ e4 ++ [m]) csig = true

instance (cfg : Cfg) (auth dk b4 e4 csig : Bytes) (m : UInt8) (t thr : Int) :
    Decidable (levelChecks H C cfg auth dk b4 e4 csig m t thr) := by unfold levelChecks; infer_instance

/-- the cache after a level has taken its certificate apart -/
def levelCache (cache : List (CKey × CVal)) (auth dk b4 e4 csig : Bytes) (m : UInt8) : List (CKey × CVal) :=
  (CKey.byt (asciiBytes "d"), CVal.list [Atom.bytes dk]) :: (CKey.byt (asciiBytes "b"), CVal.list [Atom.bytes b4]) ::
  (CKey.byt (asciiBytes "e"), CVal.list [Atom.bytes e4]) :: (CKey.byt (asciiBytes "c"), CVal.list [Atom.bytes [m]]) ::
  (CKey.byt (asciiBytes "s"), CVal.list [Atom.bytes csig]) :: (CKey.byt (asciiBytes "r"), CVal.list [Atom.bytes auth]) :: cache

set_option maxHeartbeats 3200000 in
/-- **C14, one level of the chain lock.** In *any* activation of the lock's function (any frame
    whose tape is the function body), from a stack `auth :: cert :: rest0`: the level ends in an
    error unless the certificate is inside its window (`t` accepted against begin, not against
    end) and is signed by the authorizing key `auth` over (delegate ‖ begin ‖ end ‖ may); if it
    is, the run continues at the decision `if ( @c and ) …` with the certificate removed from the
    stack and its parts in the cache — whatever `Q` that continuation guarantees. -/
theorem chainLevel_run (cfg : Cfg) (auth dk b4 e4 csig : Bytes) (m : UInt8) (flags : Nat)
    (rest0 : List Bytes) (sh : Shared) (fr : Frame) (t thr : Int) (Q : Res → Prop)
    (hfrest : fr.rest = chainBodySeq flags) (hcap : fr.len0 < fr.cap)
    (hauth : auth.length = 32) (hdk : dk.length = 32) (hb4 : b4.length = 4) (he4 : e4.length = 4) (hcs : csig.length = 64)
    (hs : sh.stack = auth :: (dk ++ b4 ++ e4 ++ [m] ++ csig) :: rest0) (hr : sh.returned = false)
    (ht : lookupC C16.tsKey sh.cache = some (.atom (.int t))) (hthr : cfg.tsThreshold = some thr)
    (hsz : 105 ≤ cfg.lim.maxItemSize) (hroom : rest0.length + 5 ≤ cfg.lim.maxItems)
    (hQ : levelChecks H C cfg auth dk b4 e4 csig m t thr →
      Ends (instrTable H C cfg) cfg.lim { fr with rest := chainDecide flags }
        { sh with stack := rest0, cache := levelCache sh.cache auth dk b4 e4 csig m } Q) :
    Ends (instrTable H C cfg) cfg.lim fr sh
      (fun r => (levelChecks H C cfg auth dk b4 e4 csig m t thr → Q r) ∧
                (¬ levelChecks H C cfg auth dk b4 e4 csig m t thr → ∃ s, r = .err (.user .see) s)) := by
  rw [show fr = { fr with rest := chainBodySeq flags } by cases fr; simp_all]
  unfold chainBodySeq
  have h41 : Tools.pushInt 41 = pushB [41] := by decide
  have h40 : Tools.pushInt 40 = pushB [40] := by decide
  have h36 : Tools.pushInt 36 = pushB [36] := by decide
  have h32 : Tools.pushInt 32 = pushB [32] := by decide
  rw [h41, h40, h36, h32]
  generalize hp36 : dk ++ b4 = p36 at *
  generalize hp40 : p36 ++ e4 = p40 at *
  generalize hpre : p40 ++ [m] = pre at *
  have l36 : p36.length = 36 := by subst hp36; simp [hdk, hb4]
  have l40 : p40.length = 40 := by subst hp40; simp [l36, he4]
  have l41 : pre.length = 41 := by subst hpre; simp [l40]
  have lcert : (pre ++ csig).length = 105 := by simp [l41, hcs]
  -- r := auth
  refine Ends.step (fun r h => run_writeCache1 H C cfg _ sh _ (asciiBytes "r") auth ((pre ++ csig) :: rest0) r rfl (by decide) (by decide) hcap hr hs h) ?_
  dsimp only
  refine Ends.step (fun r h => run_pushB H C cfg _ _ [41] _ r (by decide) (by decide) rfl hcap hr (by simp; omega) (by simp; omega) h) ?_
  dsimp only
  refine Ends.step (fun r h => run_split H C cfg _ _ _ 41 [41] (pre ++ csig) rest0 r rfl hcap hr rfl (by decide) (by omega) (by omega) (by omega) h) ?_
  dsimp only
  rw [take_append_len _ _ _ l41, drop_append_len _ _ _ l41]
  refine Ends.step (fun r h => run_writeCache1 H C cfg _ _ _ (asciiBytes "s") csig (pre :: rest0) r rfl (by decide) (by decide) hcap hr rfl h) ?_
  dsimp only
  refine Ends.step (fun r h => run_dup H C cfg _ _ _ pre rest0 r rfl hcap hr rfl (by omega) (by omega) h) ?_
  dsimp only
  refine Ends.step (fun r h => run_pushB H C cfg _ _ [40] _ r (by decide) (by decide) rfl hcap hr (by simp; omega) (by simp; omega) h) ?_
  dsimp only
  refine Ends.step (fun r h => run_split H C cfg _ _ _ 40 [40] pre (pre :: rest0) r rfl hcap hr rfl (by decide) (by omega) (by omega) (by simp; omega) h) ?_
  dsimp only
  rw [← hpre, take_append_len _ _ _ l40, drop_append_len _ _ _ l40, hpre]
  refine Ends.step (fun r h => run_writeCache1 H C cfg _ _ _ (asciiBytes "c") [m] (p40 :: pre :: rest0) r rfl (by decide) (by decide) hcap hr rfl h) ?_
  dsimp only
  refine Ends.step (fun r h => run_pushB H C cfg _ _ [36] _ r (by decide) (by decide) rfl hcap hr (by simp; omega) (by simp; omega) h) ?_
  dsimp only
  refine Ends.step (fun r h => run_split H C cfg _ _ _ 36 [36] p40 (pre :: rest0) r rfl hcap hr rfl (by decide) (by omega) (by omega) (by simp; omega) h) ?_
  dsimp only
  rw [← hp40, take_append_len _ _ _ l36, drop_append_len _ _ _ l36]
  refine Ends.step (fun r h => run_writeCache1 H C cfg _ _ _ (asciiBytes "e") e4 (p36 :: pre :: rest0) r rfl (by decide) (by decide) hcap hr rfl h) ?_
  dsimp only
  refine Ends.step (fun r h => run_pushB H C cfg _ _ [32] _ r (by decide) (by decide) rfl hcap hr (by simp; omega) (by simp; omega) h) ?_
  dsimp only
  refine Ends.step (fun r h => run_split H C cfg _ _ _ 32 [32] p36 (pre :: rest0) r rfl hcap hr rfl (by decide) (by omega) (by omega) (by simp; omega) h) ?_
  dsimp only
  rw [← hp36, take_append_len _ _ _ hdk, drop_append_len _ _ _ hdk]
  refine Ends.step (fun r h => run_writeCache1 H C cfg _ _ _ (asciiBytes "b") b4 (dk :: pre :: rest0) r rfl (by decide) (by decide) hcap hr rfl h) ?_
  dsimp only
  refine Ends.step (fun r h => run_writeCache1 H C cfg _ _ _ (asciiBytes "d") dk (pre :: rest0) r rfl (by decide) (by decide) hcap hr rfl h) ?_
  dsimp only
  -- the cache now holds d, b, e, c, s, r above the earlier entries
  have hcache : ((CKey.byt (asciiBytes "d"), CVal.list [Atom.bytes dk]) :: (CKey.byt (asciiBytes "b"), CVal.list [Atom.bytes b4]) ::
      (CKey.byt (asciiBytes "e"), CVal.list [Atom.bytes e4]) :: (CKey.byt (asciiBytes "c"), CVal.list [Atom.bytes [m]]) ::
      (CKey.byt (asciiBytes "s"), CVal.list [Atom.bytes csig]) :: (CKey.byt (asciiBytes "r"), CVal.list [Atom.bytes auth]) :: sh.cache)
      = levelCache sh.cache auth dk b4 e4 csig m := rfl
  rw [hcache]
  generalize hcg : levelCache sh.cache auth dk b4 e4 csig m = cache' at *
  have hts : lookupC C16.tsKey cache' = some (.atom (.int t)) := by
    subst hcg
    simp only [levelCache, C16.tsKey, lookupC_str_cons_byt]
    exact ht
  have hlb : lookupC (.byt (asciiBytes "b")) cache' = some (.list [.bytes b4]) := by
    subst hcg
    unfold levelCache
    rw [lookupC_byt_cons_ne _ _ _ _ (by decide), lookupC_byt_cons_eq]
  have hle : lookupC (.byt (asciiBytes "e")) cache' = some (.list [.bytes e4]) := by
    subst hcg
    unfold levelCache
    rw [lookupC_byt_cons_ne _ _ _ _ (by decide), lookupC_byt_cons_ne _ _ _ _ (by decide), lookupC_byt_cons_eq]
  have hls : lookupC (.byt (asciiBytes "s")) cache' = some (.list [.bytes csig]) := by
    subst hcg
    unfold levelCache
    rw [lookupC_byt_cons_ne _ _ _ _ (by decide), lookupC_byt_cons_ne _ _ _ _ (by decide), lookupC_byt_cons_ne _ _ _ _ (by decide),
      lookupC_byt_cons_ne _ _ _ _ (by decide), lookupC_byt_cons_eq]
  have hlr : lookupC (.byt (asciiBytes "r")) cache' = some (.list [.bytes auth]) := by
    subst hcg
    unfold levelCache
    rw [lookupC_byt_cons_ne _ _ _ _ (by decide), lookupC_byt_cons_ne _ _ _ _ (by decide), lookupC_byt_cons_ne _ _ _ _ (by decide),
      lookupC_byt_cons_ne _ _ _ _ (by decide), lookupC_byt_cons_ne _ _ _ _ (by decide), lookupC_byt_cons_eq]
  have hb4ne : b4 ≠ [] := by intro h; rw [h] at hb4; simp at hb4
  have he4ne : e4 ≠ [] := by intro h; rw [h] at he4; simp at he4
  unfold levelChecks at hQ ⊢
  rw [hp36, hp40, hpre] at hQ ⊢
  -- begin
  refine Ends.step (fun r h => run_readCache1 H C cfg _ _ _ (asciiBytes "b") b4 r rfl (by decide) (by decide) hcap hr hlb (by omega) (by simp; omega) h) ?_
  dsimp only
  by_cases hab : C16.tsAccept t cfg.now thr b4 = true
  case neg =>
    have hab' : C16.tsAccept t cfg.now thr b4 = false := by simpa using hab
    exact ⟨_, run_ctsv_fail H C cfg _ _ _ b4 (pre :: rest0) t thr rfl hcap hr rfl hb4ne hts hthr (by omega) (by simp; omega) hab',
      fun hc => absurd hc.1 hab, fun _ => ⟨_, rfl⟩⟩
  refine Ends.step (fun r h => run_ctsv_ok H C cfg _ _ _ b4 (pre :: rest0) t thr r rfl hcap hr rfl hb4ne hts hthr (by omega) (by simp; omega) hab h) ?_
  dsimp only
  -- end
  refine Ends.step (fun r h => run_readCache1 H C cfg _ _ _ (asciiBytes "e") e4 r rfl (by decide) (by decide) hcap hr hle (by omega) (by simp; omega) h) ?_
  dsimp only
  refine Ends.step (fun r h => run_cts H C cfg _ _ _ e4 (pre :: rest0) t thr r rfl hcap hr rfl he4ne hts hthr (by omega) (by simp; omega) h) ?_
  dsimp only
  refine Ends.step (fun r h => run_not H C cfg _ _ _ (boolBytes (C16.tsAccept t cfg.now thr e4)) (pre :: rest0) r rfl hcap hr rfl
    (by cases C16.tsAccept t cfg.now thr e4 <;> simp [boolBytes] <;> omega) (by simp; omega) h) ?_
  dsimp only
  by_cases hae : C16.tsAccept t cfg.now thr e4 = true
  · exact ⟨_, run_verify_false H C cfg _ _ _ (notBytes (boolBytes (C16.tsAccept t cfg.now thr e4))) (pre :: rest0) rfl hcap hr rfl
        (by rw [hae]; decide), fun hc => by rw [hae] at hc; exact absurd hc.2.1 (by simp), fun _ => ⟨_, rfl⟩⟩
  have hae' : C16.tsAccept t cfg.now thr e4 = false := by simpa using hae
  refine Ends.step (fun r h => run_verify_true H C cfg _ _ _ (notBytes (boolBytes (C16.tsAccept t cfg.now thr e4))) (pre :: rest0) r rfl hcap hr rfl
    (by rw [hae']; decide) h) ?_
  dsimp only
  -- certificate signature under the authorizing key
  refine Ends.step (fun r h => run_readCache1 H C cfg _ _ _ (asciiBytes "s") csig r rfl (by decide) (by decide) hcap hr hls (by omega) (by simp; omega) h) ?_
  dsimp only
  refine Ends.step (fun r h => run_swap2 H C cfg _ _ _ csig pre rest0 r rfl hcap hr rfl (by omega) (by omega) (by omega) h) ?_
  dsimp only
  refine Ends.step (fun r h => run_readCache1 H C cfg _ _ _ (asciiBytes "r") auth r rfl (by decide) (by decide) hcap hr hlr (by omega) (by simp; omega) h) ?_
  dsimp only
  refine Ends.step (fun r h => run_css H C cfg _ _ _ auth pre csig rest0 r rfl hcap hr rfl hauth hcs (by omega) (by omega) h) ?_
  dsimp only
  by_cases hv : Sodium.verify H C auth pre csig = true
  case neg =>
    have hv' : Sodium.verify H C auth pre csig = false := by simpa using hv
    exact ⟨_, run_verify_false H C cfg _ _ _ (boolBytes (Sodium.verify H C auth pre csig)) rest0 rfl hcap hr rfl
        (by rw [hv']; decide), fun hc => absurd hc.2.2 hv, fun _ => ⟨_, rfl⟩⟩
  refine Ends.step (fun r h => run_verify_true H C cfg _ _ _ (boolBytes (Sodium.verify H C auth pre csig)) rest0 r rfl hcap hr rfl
    (by rw [hv]; decide) h) ?_
  dsimp only
  obtain ⟨r, hrun, hq⟩ := hQ ⟨hab, hae', hv⟩
  exact ⟨r, hrun, fun _ => hq, fun hn => absurd ⟨hab, hae', hv⟩ hn⟩

set_option maxHeartbeats 1600000 in
/-- **the decision, final link.** The item after the certificate ANDed with the may-delegate byte
    is false (the witness's `false` marker, or a certificate that does not permit delegation):
    the level ends with exactly the C02 verdict of the next item as a signature under this
    certificate's delegate key. -/
theorem chainDecide_final (cfg : Cfg) (hno : cfg.sigExts = []) (dk marker sig : Bytes) (m : UInt8) (flags : Nat)
    (st : List Bytes) (sh : Shared) (fr : Frame)
    (hfrest : fr.rest = chainDecide flags) (hcap : fr.len0 < fr.cap) (hlen : (chainDecide flags).length ≤ fr.len0)
    (hdk : dk.length = 32) (hfl : flags < 256) (hmk : marker.length ≤ cfg.lim.maxItemSize)
    (hs : sh.stack = marker :: sig :: st) (hr : sh.returned = false)
    (hlc : lookupC (.byt (asciiBytes "c")) sh.cache = some (.list [.bytes [m]]))
    (hld : lookupC (.byt (asciiBytes "d")) sh.cache = some (.list [.bytes dk]))
    (hfalse : truthy (andBytes [m] marker) = false)
    (hsz : 32 ≤ cfg.lim.maxItemSize) (hroom : st.length + 3 ≤ cfg.lim.maxItems) :
    Ends (instrTable H C cfg) cfg.lim fr sh
      (fun r => Res.summary r = (match SigPure.checkSig H C cfg.lim.maxItemSize sh.cache flags sig dk with
          | .ok b => .ok (boolBytes b :: st)
          | .error e => .error (.user e))) := by
  rw [show fr = { fr with rest := chainDecide flags } by cases fr; simp_all]
  unfold chainDecide
  have hlb : (readCache "d" ++ CHECK_SIG flags).length = 5 := by simp [readCache, CHECK_SIG, opc]; decide
  have hla : (readCache "d" ++ CALL 0).length = 5 := by decide
  have hl : 5 < fr.len0 := by
    have : (chainDecide flags).length ≥ 6 := by simp [chainDecide, ifElse, readCache, opc, hla, hlb]; omega
    omega
  have hand : (andBytes [m] marker).length ≤ cfg.lim.maxItemSize := by
    unfold andBytes
    rw [TV.C04.zipWithPad_length]
    simp; omega
  refine Ends.step (fun r h => run_readCache1 H C cfg _ sh _ (asciiBytes "c") [m] r rfl (by decide) (by decide) hcap hr hlc (by simp; omega) (by rw [hs]; simp; omega) h) ?_
  dsimp only
  refine Ends.step (fun r h => run_and H C cfg _ _ _ [m] marker (sig :: st) r rfl hcap hr (by rw [hs]) hand (by simp; omega) h) ?_
  dsimp only
  cases hspec : SigPure.checkSig H C cfg.lim.maxItemSize sh.cache flags sig dk with
  | error e =>
    refine ⟨_, run_ifelse_err H C cfg _ _ _ _ (readCache "d" ++ CALL 0) (readCache "d" ++ CHECK_SIG flags) (andBytes [m] marker) (sig :: st) (.user e) rfl (by omega) (by omega) hcap hr rfl (by simp)
      (by
        rw [hfalse]
        simp only [Bool.false_eq_true, ↓reduceIte]
        refine run_readCache1 H C cfg _ _ (CHECK_SIG flags) (asciiBytes "d") dk _ rfl (by decide) (by decide)
          (by simp [inlineFrame, hlb]; omega) (by simp [copyDict, hr]) (by simpa [copyDict] using hld) (by omega) (by simp [copyDict]; omega) ?_
        try dsimp only
        have := run_checksig_last H C cfg hno
          { (inlineFrame (readCache "d" ++ CHECK_SIG flags) { fr with rest := [] } { sh with stack := sig :: st }) with rest := CHECK_SIG flags }
          { (copyDict { sh with stack := sig :: st } fr.dict).2 with stack := dk :: sig :: st }
          flags dk sig st rfl hfl (by simp [inlineFrame, hlb]; omega) (by simp [copyDict, hr]) rfl (by omega) (by omega)
        simp only [copyDict] at this ⊢
        rw [hspec] at this
        exact this), rfl⟩
  | ok b =>
    refine Ends.step (fun r h => run_ifelse_ok H C cfg _ _ _ _ _ (readCache "d" ++ CALL 0) (readCache "d" ++ CHECK_SIG flags) (andBytes [m] marker) (sig :: st) r rfl (by omega) (by omega) hcap hr rfl
      (by
        rw [hfalse]
        simp only [Bool.false_eq_true, ↓reduceIte]
        refine run_readCache1 H C cfg _ _ (CHECK_SIG flags) (asciiBytes "d") dk _ rfl (by decide) (by decide)
          (by simp [inlineFrame, hlb]; omega) (by simp [copyDict, hr]) (by simpa [copyDict] using hld) (by omega) (by simp [copyDict]; omega) ?_
        try dsimp only
        have := run_checksig_last H C cfg hno
          { (inlineFrame (readCache "d" ++ CHECK_SIG flags) { fr with rest := [] } { sh with stack := sig :: st }) with rest := CHECK_SIG flags }
          { (copyDict { sh with stack := sig :: st } fr.dict).2 with stack := dk :: sig :: st }
          flags dk sig st rfl hfl (by simp [inlineFrame, hlb]; omega) (by simp [copyDict, hr]) rfl (by omega) (by omega)
        simp only [copyDict] at this ⊢
        rw [hspec] at this
        exact this)
      (by simp [hr]) h) ?_
    dsimp only
    exact ⟨_, TSteps.nil rfl, rfl⟩

set_option maxHeartbeats 1600000 in
/-- **the decision, non-final link.** The may-delegate byte ANDed with the next item is true (a
    delegable certificate followed by the witness's `true` marker): the level consumes the marker,
    puts this certificate's delegate key on the stack and executes `CALL 0` — the next level runs
    with the delegate key as its authorizing key — and ends as that call does. -/
theorem chainDecide_recurse (cfg : Cfg) (dk marker : Bytes) (m : UInt8) (flags : Nat)
    (rest1 : List Bytes) (sh : Shared) (fr : Frame) (rB : Res)
    (hfrest : fr.rest = chainDecide flags) (hcap : fr.len0 < fr.cap) (hlen : (chainDecide flags).length ≤ fr.len0)
    (hdk : dk.length = 32) (hmk : marker.length ≤ cfg.lim.maxItemSize)
    (hs : sh.stack = marker :: rest1) (hr : sh.returned = false)
    (hlc : lookupC (.byt (asciiBytes "c")) sh.cache = some (.list [.bytes [m]]))
    (hld : lookupC (.byt (asciiBytes "d")) sh.cache = some (.list [.bytes dk]))
    (htrue : truthy (andBytes [m] marker) = true)
    (hsz : 32 ≤ cfg.lim.maxItemSize) (hroom : rest1.length + 2 ≤ cfg.lim.maxItems)
    (hB : TSteps (instrTable H C cfg) cfg.lim
        { (inlineFrame (readCache "d" ++ CALL 0) { fr with rest := [] } { sh with stack := rest1 }) with rest := CALL 0 }
        { (copyDict { sh with stack := rest1 } fr.dict).2 with stack := dk :: rest1 } rB) :
    TSteps (instrTable H C cfg) cfg.lim fr sh (wrapInline { fr with rest := [] } rB) := by
  rw [show fr = { fr with rest := chainDecide flags } by cases fr; simp_all]
  unfold chainDecide
  have hla : (readCache "d" ++ CALL 0).length = 5 := by decide
  have hlb : (readCache "d" ++ CHECK_SIG flags).length = 5 := by simp [readCache, CHECK_SIG, opc]; decide
  have hl : 5 < fr.len0 := by
    have : (chainDecide flags).length ≥ 6 := by simp [chainDecide, ifElse, readCache, opc]; omega
    omega
  have hand : (andBytes [m] marker).length ≤ cfg.lim.maxItemSize := by
    unfold andBytes
    rw [TV.C04.zipWithPad_length]
    simp; omega
  refine run_readCache1 H C cfg _ sh _ (asciiBytes "c") [m] _ rfl (by decide) (by decide) hcap hr hlc (by simp; omega) (by rw [hs]; simp; omega) ?_
  dsimp only
  refine run_and H C cfg _ _ _ [m] marker rest1 _ rfl hcap hr (by rw [hs]) hand (by omega) ?_
  dsimp only
  refine run_ifelse_last H C cfg _ _ (readCache "d" ++ CALL 0) (readCache "d" ++ CHECK_SIG flags) (andBytes [m] marker) rest1 rB rfl (by omega) (by omega) hcap hr rfl ?_
  rw [htrue]
  simp only [↓reduceIte]
  refine run_readCache1 H C cfg _ _ (CALL 0) (asciiBytes "d") dk _ rfl (by decide) (by decide)
    (by simp [inlineFrame, hla]; omega) (by simp [copyDict, hr]) (by simpa [copyDict] using hld) (by omega) (by simp [copyDict]; omega) ?_
  exact hB

theorem levelCache_c (cache : List (CKey × CVal)) (auth dk b4 e4 csig : Bytes) (m : UInt8) :
    lookupC (.byt (asciiBytes "c")) (levelCache cache auth dk b4 e4 csig m) = some (.list [.bytes [m]]) := by
  unfold levelCache
  rw [lookupC_byt_cons_ne _ _ _ _ (by decide), lookupC_byt_cons_ne _ _ _ _ (by decide), lookupC_byt_cons_ne _ _ _ _ (by decide), lookupC_byt_cons_eq]

theorem levelCache_d (cache : List (CKey × CVal)) (auth dk b4 e4 csig : Bytes) (m : UInt8) :
    lookupC (.byt (asciiBytes "d")) (levelCache cache auth dk b4 e4 csig m) = some (.list [.bytes dk]) := by
  unfold levelCache
  rw [lookupC_byt_cons_eq]

theorem levelCache_ts (cache : List (CKey × CVal)) (auth dk b4 e4 csig : Bytes) (m : UInt8) :
    lookupC C16.tsKey (levelCache cache auth dk b4 e4 csig m) = lookupC C16.tsKey cache := by
  simp only [levelCache, C16.tsKey, lookupC_str_cons_byt]

theorem levelCache_checkSig (mis : Nat) (cache : List (CKey × CVal)) (auth dk b4 e4 csig : Bytes) (m : UInt8) (a : Nat) (s v : Bytes) :
    SigPure.checkSig H C mis (levelCache cache auth dk b4 e4 csig m) a s v = SigPure.checkSig H C mis cache a s v := by
  simp only [levelCache, checkSig_cons_byt]

/-- **C14, the last link of a chain: exact outcome of its level.** In any activation, from a stack
    `auth :: cert :: marker :: sig :: st` where the marker ANDed with the may-delegate byte is
    false: an error unless the certificate is inside its window and signed by `auth`; then exactly
    the C02 verdict of `sig` under the certificate's delegate key. -/
theorem chainLevel_final (cfg : Cfg) (hno : cfg.sigExts = []) (auth dk b4 e4 csig marker sig : Bytes) (m : UInt8) (flags : Nat)
    (st : List Bytes) (sh : Shared) (fr : Frame) (t thr : Int)
    (hfrest : fr.rest = chainBodySeq flags) (hcap : fr.len0 < fr.cap) (hlen : (chainBodySeq flags).length ≤ fr.len0)
    (hauth : auth.length = 32) (hdk : dk.length = 32) (hb4 : b4.length = 4) (he4 : e4.length = 4) (hcs : csig.length = 64)
    (hfl : flags < 256) (hmk : marker.length ≤ cfg.lim.maxItemSize)
    (hs : sh.stack = auth :: (dk ++ b4 ++ e4 ++ [m] ++ csig) :: marker :: sig :: st) (hr : sh.returned = false)
    (ht : lookupC C16.tsKey sh.cache = some (.atom (.int t))) (hthr : cfg.tsThreshold = some thr)
    (hfalse : truthy (andBytes [m] marker) = false)
    (hsz : 105 ≤ cfg.lim.maxItemSize) (hroom : st.length + 7 ≤ cfg.lim.maxItems) :
    Ends (instrTable H C cfg) cfg.lim fr sh
      (fun r => Res.summary r =
        (if levelChecks H C cfg auth dk b4 e4 csig m t thr then
          (match SigPure.checkSig H C cfg.lim.maxItemSize sh.cache flags sig dk with
           | .ok b => .ok (boolBytes b :: st)
           | .error e => .error (.user e))
         else .error (.user .see))) := by
  have hdl : (chainDecide flags).length ≤ fr.len0 := by
    have : (chainBodySeq flags).length ≥ (chainDecide flags).length := by
      unfold chainBodySeq
      simp only [List.length_append]
      omega
    omega
  obtain ⟨r, hrun, hpass, hfail⟩ := chainLevel_run H C cfg auth dk b4 e4 csig m flags (marker :: sig :: st) sh fr t thr
    (fun r => Res.summary r = (match SigPure.checkSig H C cfg.lim.maxItemSize sh.cache flags sig dk with
           | .ok b => .ok (boolBytes b :: st)
           | .error e => .error (.user e)))
    hfrest hcap hauth hdk hb4 he4 hcs hs hr ht hthr hsz (by simp; omega)
    (fun _ => by
      have := chainDecide_final H C cfg hno dk marker sig m flags st
        { sh with stack := marker :: sig :: st, cache := levelCache sh.cache auth dk b4 e4 csig m }
        { fr with rest := chainDecide flags } rfl hcap hdl hdk hfl hmk rfl hr
        (levelCache_c _ _ _ _ _ _ _) (levelCache_d _ _ _ _ _ _ _) hfalse (by omega) (by omega)
      simp only [levelCache_checkSig] at this
      exact this)
  refine ⟨r, hrun, ?_⟩
  by_cases hc : levelChecks H C cfg auth dk b4 e4 csig m t thr
  · rw [if_pos hc]; exact hpass hc
  · rw [if_neg hc]
    obtain ⟨s, hs'⟩ := hfail hc
    rw [hs']; rfl

/-- **C14, a non-final link: exact outcome of its level.** From a stack
    `auth :: cert :: marker :: rest1` where the marker ANDed with the may-delegate byte is true:
    an error unless the certificate is inside its window and signed by `auth`; then the level is
    exactly `CALL 0` on the stack `delegate :: rest1` — the next level, authorized by this
    certificate's delegate key — and ends as that call does (`rB`). A certificate that does not
    permit delegation (may-delegate byte 00) never reaches this case: it falls to
    `chainLevel_final`, where the next certificate is not a valid signature. -/
theorem chainLevel_delegates (cfg : Cfg) (auth dk b4 e4 csig marker : Bytes) (m : UInt8) (flags : Nat)
    (rest1 : List Bytes) (sh : Shared) (fr : Frame) (t thr : Int) (rB : Res)
    (hfrest : fr.rest = chainBodySeq flags) (hcap : fr.len0 < fr.cap) (hlen : (chainBodySeq flags).length ≤ fr.len0)
    (hauth : auth.length = 32) (hdk : dk.length = 32) (hb4 : b4.length = 4) (he4 : e4.length = 4) (hcs : csig.length = 64)
    (hmk : marker.length ≤ cfg.lim.maxItemSize)
    (hs : sh.stack = auth :: (dk ++ b4 ++ e4 ++ [m] ++ csig) :: marker :: rest1) (hr : sh.returned = false)
    (ht : lookupC C16.tsKey sh.cache = some (.atom (.int t))) (hthr : cfg.tsThreshold = some thr)
    (htrue : truthy (andBytes [m] marker) = true)
    (hsz : 105 ≤ cfg.lim.maxItemSize) (hroom : rest1.length + 6 ≤ cfg.lim.maxItems)
    (hB : TSteps (instrTable H C cfg) cfg.lim
        { (inlineFrame (readCache "d" ++ CALL 0) { fr with rest := [] }
            { sh with stack := rest1, cache := levelCache sh.cache auth dk b4 e4 csig m }) with rest := CALL 0 }
        { (copyDict { sh with stack := rest1, cache := levelCache sh.cache auth dk b4 e4 csig m } fr.dict).2 with stack := dk :: rest1 } rB) :
    Ends (instrTable H C cfg) cfg.lim fr sh
      (fun r => (levelChecks H C cfg auth dk b4 e4 csig m t thr → r = wrapInline { fr with rest := [] } rB) ∧
                (¬ levelChecks H C cfg auth dk b4 e4 csig m t thr → ∃ s, r = .err (.user .see) s)) := by
  have hdl : (chainDecide flags).length ≤ fr.len0 := by
    have : (chainBodySeq flags).length ≥ (chainDecide flags).length := by
      unfold chainBodySeq
      simp only [List.length_append]
      omega
    omega
  exact chainLevel_run H C cfg auth dk b4 e4 csig m flags (marker :: rest1) sh fr t thr _
    hfrest hcap hauth hdk hb4 he4 hcs hs hr ht hthr hsz (by simp; omega)
    (fun _ => ⟨_, chainDecide_recurse H C cfg dk marker m flags rest1
        { sh with stack := marker :: rest1, cache := levelCache sh.cache auth dk b4 e4 csig m }
        { fr with rest := chainDecide flags } rB rfl hcap hdl hdk hmk rfl hr
        (levelCache_c _ _ _ _ _ _ _) (levelCache_d _ _ _ _ _ _ _) htrue (by omega) (by omega) hB, rfl⟩)

end TV.C14
