import Tapeverif.Lemmas.RunInstr
/-! # C14 — delegation: certificate serialisation round-trips for every field value -/
namespace TV.C14

open Instr Tools

variable (H : Hashes) (C : Curve)

/-- C14 (serialisation): for every certificate with a 32-byte delegate key, timestamps below
    2^32 (the builder admits `< 2^31`), any may-delegate flag and a 64-byte signature, unpacking
    the packed form returns exactly the certificate; the packed form is 105 bytes. -/
theorem cert_pack_unpack (c : Certificate) (hd : c.delegate.length = 32)
    (hb : c.beginTs < 2 ^ 32) (he : c.endTs < 2 ^ 32) (hs : c.signature.length = 64) :
    (Certificate.pack c).length = 105 ∧ Certificate.unpack (Certificate.pack c) = some c := by
  have hlen4 : ∀ n, (pad4 n).length = 4 := fun n => natToBytesBE_length 4 n
  have hpack : Certificate.pack c =
      c.delegate ++ (pad4 c.beginTs ++ (pad4 c.endTs ++ ([if c.may then 0xff else 0x00] ++ c.signature))) := by
    simp [Certificate.pack, Certificate.preimage, List.append_assoc]
  have hl : (Certificate.pack c).length = 105 := by
    rw [hpack]; simp [hd, hlen4, hs]
  refine ⟨hl, ?_⟩
  unfold Certificate.unpack
  rw [if_pos hl, hpack]
  have h256 : (256 : Nat) ^ 4 = 2 ^ 32 := by decide
  have t1 : (c.delegate ++ (pad4 c.beginTs ++ (pad4 c.endTs ++ ([if c.may then 0xff else 0x00] ++ c.signature)))).take 32 = c.delegate := by
    rw [← hd]; simp
  have d1 : (c.delegate ++ (pad4 c.beginTs ++ (pad4 c.endTs ++ ([if c.may then 0xff else 0x00] ++ c.signature)))).drop 32
      = pad4 c.beginTs ++ (pad4 c.endTs ++ ([if c.may then 0xff else 0x00] ++ c.signature)) := by
    rw [← hd]; simp
  have d2 : (c.delegate ++ (pad4 c.beginTs ++ (pad4 c.endTs ++ ([if c.may then 0xff else 0x00] ++ c.signature)))).drop 36
      = pad4 c.endTs ++ ([if c.may then 0xff else 0x00] ++ c.signature) := by
    rw [show 36 = 32 + 4 by rfl, ← List.drop_drop, d1]
    rw [← hlen4 c.beginTs]; simp
  have d3 : (c.delegate ++ (pad4 c.beginTs ++ (pad4 c.endTs ++ ([if c.may then 0xff else 0x00] ++ c.signature)))).drop 40
      = [if c.may then 0xff else 0x00] ++ c.signature := by
    rw [show 40 = 36 + 4 by rfl, ← List.drop_drop, d2]
    rw [← hlen4 c.endTs]; simp
  have d4 : (c.delegate ++ (pad4 c.beginTs ++ (pad4 c.endTs ++ ([if c.may then 0xff else 0x00] ++ c.signature)))).drop 41
      = c.signature := by
    rw [show 41 = 40 + 1 by rfl, ← List.drop_drop, d3]; simp
  rw [t1, d1, d2, d3, d4]
  have tb : (pad4 c.beginTs ++ (pad4 c.endTs ++ ([if c.may then 0xff else 0x00] ++ c.signature))).take 4 = pad4 c.beginTs := by
    rw [← hlen4 c.beginTs]; simp
  have te : (pad4 c.endTs ++ ([if c.may then 0xff else 0x00] ++ c.signature)).take 4 = pad4 c.endTs := by
    rw [← hlen4 c.endTs]; simp
  rw [tb, te]
  unfold pad4
  rw [natOf_natTo, natOf_natTo, h256, Nat.mod_eq_of_lt hb, Nat.mod_eq_of_lt he]
  cases c with
  | mk d b e m s =>
    cases m <;> simp

/-- the packed may-delegate byte is 0xff exactly for delegable certificates -/
theorem cert_may_byte (c : Certificate) (hd : c.delegate.length = 32) :
    (Certificate.preimage c)[40]? = some (if c.may then 0xff else 0x00) := by
  have hlen4 : ∀ n, (pad4 n).length = 4 := fun n => natToBytesBE_length 4 n
  unfold Certificate.preimage
  rw [List.getElem?_append_right (by simp [hd, hlen4])]
  simp [hd, hlen4]

/-- Non-vacuity -/
example : (Certificate.unpack (Certificate.pack ⟨List.replicate 32 7, 5, 2^31 - 1, true, List.replicate 64 9⟩)).map (·.endTs) = some (2^31 - 1) := by
  decide

/-! ### the single-certificate lock, executed symbolically -/

/-- `make_delegate_key_lock`, instruction by instruction -/
def delegateKeyLockSeq (root : Bytes) (flags : Nat) : Bytes :=
      Tools.pushInt 41 ++ (SPLIT ++ (writeCache "s" 1 ++ (DUP ++ (Tools.pushInt 40 ++ (SPLIT ++ (POP0 ++
      (Tools.pushInt 36 ++ (SPLIT ++ (writeCache "e" 1 ++ (Tools.pushInt 32 ++ (SPLIT ++ (writeCache "b" 1 ++
      (writeCache "d" 1 ++ (readCache "b" ++ (opc CTSV ++ (readCache "e" ++ (opc CTS ++ (opc NOT ++ (opc VERIFY ++
      (readCache "s" ++ (SWAP2 ++ (pushB root ++ (CSS ++ (opc VERIFY ++ (readCache "d" ++ CHECK_SIG flags)))))))))))))))))))))))))

theorem delegateKeyLock_bytes (root : Bytes) (flags : Nat) :
    delegateKeyLock root flags = delegateKeyLockSeq root flags := by
  unfold delegateKeyLock delegateKeyLockSeq certChecks
  generalize Tools.pushInt 41 = p41
  generalize Tools.pushInt 40 = p40
  generalize Tools.pushInt 36 = p36
  generalize Tools.pushInt 32 = p32
  generalize pushB root = pr
  simp only [Bool.false_eq_true, ↓reduceIte, List.append_assoc]


/-- the C14 acceptance condition of the single-certificate lock, as a function of its inputs -/
def delegateSpec (cfg : Cfg) (cache : List (CKey × CVal)) (root dk b4 e4 csig sig : Bytes) (m : UInt8) (flags : Nat)
    (t thr : Int) (st : List Bytes) : Except Err (List Bytes) :=
  if C16.tsAccept t cfg.now thr b4 = false then .error (.user .see)
  else if C16.tsAccept t cfg.now thr e4 = true then .error (.user .see)
  else if Sodium.verify H C root (dk ++ b4 ++ e4 ++ [m]) csig = false then .error (.user .see)
  else match SigPure.checkSig H C cfg.lim.maxItemSize cache flags sig dk with
    | .ok b => .ok (boolBytes b :: st)
    | .error e => .error (.user e)

set_option maxHeartbeats 1600000 in
/-- **C14, single-certificate lock, exact acceptance condition.** For every root key, certificate
    fields, certificate signature, final signature, cache, timestamp, clock, threshold and limits
    (no signature-extension plugin): running `make_delegate_key_lock(root, flags)` on a stack
    `cert :: sig :: st` ends with exactly `delegateSpec`: an error unless `t` is accepted against
    `begin` (t ≥ begin, not ahead of the clock by the slack or more), *not* accepted against `end`,
    and the certificate signature verifies under the root over (delegate ‖ begin ‖ end ‖ may);
    then exactly the C02 verdict of the final signature under the **delegate** key. -/
theorem delegateKeyLock_run (cfg : Cfg) (hno : cfg.sigExts = []) (root dk b4 e4 csig sig : Bytes) (m : UInt8)
    (flags : Nat) (st : List Bytes) (sh : Shared) (count : Nat) (t thr : Int)
    (hroot : root.length = 32) (hdk : dk.length = 32) (hb4 : b4.length = 4) (he4 : e4.length = 4) (hcs : csig.length = 64)
    (hfl : flags < 256)
    (hs : sh.stack = (dk ++ b4 ++ e4 ++ [m] ++ csig) :: sig :: st) (hr : sh.returned = false)
    (ht : lookupC C16.tsKey sh.cache = some (.atom (.int t))) (hthr : cfg.tsThreshold = some thr)
    (hsz : 105 ≤ cfg.lim.maxItemSize) (hroom : st.length + 6 ≤ cfg.lim.maxItems) :
    Ends (instrTable H C cfg) cfg.lim (topFrame (delegateKeyLock root flags) count) sh
      (fun r => Res.summary r = delegateSpec H C cfg sh.cache root dk b4 e4 csig sig m flags t thr st) := by
  rw [delegateKeyLock_bytes]
  unfold topFrame
  generalize hlen : (delegateKeyLockSeq root flags).length = len
  unfold delegateKeyLockSeq
  have hcap : len < len + 1 := by omega
  have h41 : Tools.pushInt 41 = pushB [41] := by decide
  have h40 : Tools.pushInt 40 = pushB [40] := by decide
  have h36 : Tools.pushInt 36 = pushB [36] := by decide
  have h32 : Tools.pushInt 32 = pushB [32] := by decide
  rw [h41, h40, h36, h32]
  -- the certificate's parts
  generalize hp36 : dk ++ b4 = p36 at *
  generalize hp40 : p36 ++ e4 = p40 at *
  generalize hpre : p40 ++ [m] = pre at *
  have l36 : p36.length = 36 := by subst hp36; simp [hdk, hb4]
  have l40 : p40.length = 40 := by subst hp40; simp [l36, he4]
  have l41 : pre.length = 41 := by subst hpre; simp [l40]
  have lcert : (pre ++ csig).length = 105 := by simp [l41, hcs]
  have hM := cfg.lim.maxItemSize
  -- push 41, split: [csig, pre, sig]
  refine Ends.step (fun r h => run_pushB H C cfg _ sh [41] _ r (by decide) (by decide) rfl hcap hr (by simp; omega) (by rw [hs]; simp; omega) h) ?_
  dsimp only
  refine Ends.step (fun r h => run_split H C cfg _ _ _ 41 [41] (pre ++ csig) (sig :: st) r rfl hcap hr (by rw [hs]) (by decide) (by omega) (by omega) (by simp; omega) h) ?_
  dsimp only
  rw [take_append_len _ _ _ l41, drop_append_len _ _ _ l41]
  -- s := csig
  refine Ends.step (fun r h => run_writeCache1 H C cfg _ _ _ (asciiBytes "s") csig (pre :: sig :: st) r rfl (by decide) (by decide) hcap hr rfl h) ?_
  dsimp only
  -- dup; push 40; split; pop0
  refine Ends.step (fun r h => run_dup H C cfg _ _ _ pre (sig :: st) r rfl hcap hr rfl (by omega) (by simp; omega) h) ?_
  dsimp only
  refine Ends.step (fun r h => run_pushB H C cfg _ _ [40] _ r (by decide) (by decide) rfl hcap hr (by simp; omega) (by simp; omega) h) ?_
  dsimp only
  refine Ends.step (fun r h => run_split H C cfg _ _ _ 40 [40] pre (pre :: sig :: st) r rfl hcap hr rfl (by decide) (by omega) (by omega) (by simp; omega) h) ?_
  dsimp only
  rw [← hpre, take_append_len _ _ _ l40, drop_append_len _ _ _ l40, hpre]
  refine Ends.step (fun r h => run_pop0 H C cfg _ _ _ [m] (p40 :: pre :: sig :: st) r rfl hcap hr rfl h) ?_
  dsimp only
  -- push 36; split; e := e4
  refine Ends.step (fun r h => run_pushB H C cfg _ _ [36] _ r (by decide) (by decide) rfl hcap hr (by simp; omega) (by simp; omega) h) ?_
  dsimp only
  refine Ends.step (fun r h => run_split H C cfg _ _ _ 36 [36] p40 (pre :: sig :: st) r rfl hcap hr rfl (by decide) (by omega) (by omega) (by simp; omega) h) ?_
  dsimp only
  rw [← hp40, take_append_len _ _ _ l36, drop_append_len _ _ _ l36]
  refine Ends.step (fun r h => run_writeCache1 H C cfg _ _ _ (asciiBytes "e") e4 (p36 :: pre :: sig :: st) r rfl (by decide) (by decide) hcap hr rfl h) ?_
  dsimp only
  -- push 32; split; b := b4; d := dk
  refine Ends.step (fun r h => run_pushB H C cfg _ _ [32] _ r (by decide) (by decide) rfl hcap hr (by simp; omega) (by simp; omega) h) ?_
  dsimp only
  refine Ends.step (fun r h => run_split H C cfg _ _ _ 32 [32] p36 (pre :: sig :: st) r rfl hcap hr rfl (by decide) (by omega) (by omega) (by simp; omega) h) ?_
  dsimp only
  rw [← hp36, take_append_len _ _ _ hdk, drop_append_len _ _ _ hdk]
  refine Ends.step (fun r h => run_writeCache1 H C cfg _ _ _ (asciiBytes "b") b4 (dk :: pre :: sig :: st) r rfl (by decide) (by decide) hcap hr rfl h) ?_
  dsimp only
  refine Ends.step (fun r h => run_writeCache1 H C cfg _ _ _ (asciiBytes "d") dk (pre :: sig :: st) r rfl (by decide) (by decide) hcap hr rfl h) ?_
  dsimp only
  -- the cache now holds d, b, e, P, s above the embedder's entries
  generalize hcache : ((CKey.byt (asciiBytes "d"), CVal.list [Atom.bytes dk]) :: (CKey.byt (asciiBytes "b"), CVal.list [Atom.bytes b4]) ::
      (CKey.byt (asciiBytes "e"), CVal.list [Atom.bytes e4]) :: (CKey.byt pKey, CVal.list [Atom.bytes [m]]) ::
      (CKey.byt (asciiBytes "s"), CVal.list [Atom.bytes csig]) :: sh.cache) = cache'
  have hts : lookupC C16.tsKey cache' = some (.atom (.int t)) := by
    subst hcache
    simp only [C16.tsKey, lookupC_str_cons_byt]
    exact ht
  have hlb : lookupC (.byt (asciiBytes "b")) cache' = some (.list [.bytes b4]) := by
    subst hcache
    rw [lookupC_byt_cons_ne _ _ _ _ (by decide), lookupC_byt_cons_eq]
  have hle : lookupC (.byt (asciiBytes "e")) cache' = some (.list [.bytes e4]) := by
    subst hcache
    rw [lookupC_byt_cons_ne _ _ _ _ (by decide), lookupC_byt_cons_ne _ _ _ _ (by decide), lookupC_byt_cons_eq]
  have hls : lookupC (.byt (asciiBytes "s")) cache' = some (.list [.bytes csig]) := by
    subst hcache
    rw [lookupC_byt_cons_ne _ _ _ _ (by decide), lookupC_byt_cons_ne _ _ _ _ (by decide), lookupC_byt_cons_ne _ _ _ _ (by decide),
      lookupC_byt_cons_ne _ _ _ _ (by decide), lookupC_byt_cons_eq]
  have hld : lookupC (.byt (asciiBytes "d")) cache' = some (.list [.bytes dk]) := by
    subst hcache
    rw [lookupC_byt_cons_eq]
  have hcs' : ∀ a s v, SigPure.checkSig H C cfg.lim.maxItemSize cache' a s v = SigPure.checkSig H C cfg.lim.maxItemSize sh.cache a s v := by
    intro a s v
    subst hcache
    simp only [checkSig_cons_byt]
  have hb4ne : b4 ≠ [] := by intro h; rw [h] at hb4; simp at hb4
  have he4ne : e4 ≠ [] := by intro h; rw [h] at he4; simp at he4
  -- begin ≤ t (and not ahead of the clock)
  refine Ends.step (fun r h => run_readCache1 H C cfg _ _ _ (asciiBytes "b") b4 r rfl (by decide) (by decide) hcap hr hlb (by omega) (by simp; omega) h) ?_
  dsimp only
  unfold delegateSpec
  rw [hp36, hp40, hpre]
  by_cases hab : C16.tsAccept t cfg.now thr b4 = true
  case neg =>
    have hab' : C16.tsAccept t cfg.now thr b4 = false := by simpa using hab
    exact ⟨_, run_ctsv_fail H C cfg _ _ _ b4 (pre :: sig :: st) t thr rfl hcap hr rfl hb4ne hts hthr (by omega) (by simp; omega) hab',
      by simp [Res.summary, hab']⟩
  refine Ends.step (fun r h => run_ctsv_ok H C cfg _ _ _ b4 (pre :: sig :: st) t thr r rfl hcap hr rfl hb4ne hts hthr (by omega) (by simp; omega) hab h) ?_
  dsimp only
  -- not (end ≤ t …)
  refine Ends.step (fun r h => run_readCache1 H C cfg _ _ _ (asciiBytes "e") e4 r rfl (by decide) (by decide) hcap hr hle (by omega) (by simp; omega) h) ?_
  dsimp only
  refine Ends.step (fun r h => run_cts H C cfg _ _ _ e4 (pre :: sig :: st) t thr r rfl hcap hr rfl he4ne hts hthr (by omega) (by simp; omega) h) ?_
  dsimp only
  refine Ends.step (fun r h => run_not H C cfg _ _ _ (boolBytes (C16.tsAccept t cfg.now thr e4)) (pre :: sig :: st) r rfl hcap hr rfl
    (by cases C16.tsAccept t cfg.now thr e4 <;> simp [boolBytes] <;> omega) (by simp; omega) h) ?_
  dsimp only
  by_cases hae : C16.tsAccept t cfg.now thr e4 = true
  · exact ⟨_, run_verify_false H C cfg _ _ _ (notBytes (boolBytes (C16.tsAccept t cfg.now thr e4))) (pre :: sig :: st) rfl hcap hr rfl
        (by rw [hae]; decide), by simp [Res.summary, hab, hae]⟩
  have hae' : C16.tsAccept t cfg.now thr e4 = false := by simpa using hae
  refine Ends.step (fun r h => run_verify_true H C cfg _ _ _ (notBytes (boolBytes (C16.tsAccept t cfg.now thr e4))) (pre :: sig :: st) r rfl hcap hr rfl
    (by rw [hae']; decide) h) ?_
  dsimp only
  -- certificate signature under the root
  refine Ends.step (fun r h => run_readCache1 H C cfg _ _ _ (asciiBytes "s") csig r rfl (by decide) (by decide) hcap hr hls (by omega) (by simp; omega) h) ?_
  dsimp only
  refine Ends.step (fun r h => run_swap2 H C cfg _ _ _ csig pre (sig :: st) r rfl hcap hr rfl (by omega) (by omega) (by simp; omega) h) ?_
  dsimp only
  refine Ends.step (fun r h => run_pushB H C cfg _ _ root _ r (by omega) (by omega) rfl hcap hr (by omega) (by simp; omega) h) ?_
  dsimp only
  refine Ends.step (fun r h => run_css H C cfg _ _ _ root pre csig (sig :: st) r rfl hcap hr rfl hroot hcs (by omega) (by simp; omega) h) ?_
  dsimp only
  by_cases hv : Sodium.verify H C root pre csig = true
  case neg =>
    have hv' : Sodium.verify H C root pre csig = false := by simpa using hv
    exact ⟨_, run_verify_false H C cfg _ _ _ (boolBytes (Sodium.verify H C root pre csig)) (sig :: st) rfl hcap hr rfl
        (by rw [hv']; decide), by simp [Res.summary, hab, hae', hv']⟩
  refine Ends.step (fun r h => run_verify_true H C cfg _ _ _ (boolBytes (Sodium.verify H C root pre csig)) (sig :: st) r rfl hcap hr rfl
    (by rw [hv]; decide) h) ?_
  dsimp only
  -- final signature under the delegate key
  refine Ends.step (fun r h => run_readCache1 H C cfg _ _ _ (asciiBytes "d") dk r rfl (by decide) (by decide) hcap hr hld (by omega) (by simp; omega) h) ?_
  dsimp only
  refine ⟨_, run_checksig_last H C cfg hno _ _ flags dk sig st rfl hfl hcap hr rfl (by omega) (by omega), ?_⟩
  dsimp only
  rw [hcs']
  simp only [hab, hae', hv, Bool.true_eq_false, Bool.false_eq_true, ↓reduceIte]
  cases SigPure.checkSig H C cfg.lim.maxItemSize sh.cache flags sig dk <;> rfl


/-- the two window instructions together accept exactly `begin ≤ t < end` with `t` not ahead of
    the verifier clock by the slack threshold or more -/
theorem window_iff (t now thr : Int) (b4 e4 : Bytes) :
    (C16.tsAccept t now thr b4 = true ∧ C16.tsAccept t now thr e4 = false) ↔
      ((natOfBytesBE b4 : Int) ≤ t ∧ t < (natOfBytesBE e4 : Int) ∧ (thr ≤ 0 ∨ t - now < thr)) := by
  unfold C16.tsAccept
  simp only [decide_eq_true_eq, decide_eq_false_iff_not]
  constructor
  · intro ⟨⟨h1, h2⟩, h3⟩
    refine ⟨h1, ?_, h2⟩
    by_cases h : t < (natOfBytesBE e4 : Int)
    · exact h
    · exact absurd ⟨by omega, h2⟩ h3
  · intro ⟨h1, h2, h3⟩
    exact ⟨⟨h1, h3⟩, fun ⟨h4, _⟩ => by omega⟩

/-- **C14, single-certificate lock: accepted exactly when the property's sentence holds.** With the
    witness having left exactly `[cert, sig]`, the lock ends without error on the stack `[ff]` iff
    `begin ≤ t < end`, `t` is not ahead of the clock by the slack or more, the certificate is signed
    by the root key over (delegate ‖ begin ‖ end ‖ may), and the final signature passes the C02
    specification under the delegate key. -/
theorem delegateKeyLock_accepts_iff (cfg : Cfg) (hno : cfg.sigExts = []) (root dk b4 e4 csig sig : Bytes) (m : UInt8)
    (flags : Nat) (sh : Shared) (count : Nat) (t thr : Int)
    (hroot : root.length = 32) (hdk : dk.length = 32) (hb4 : b4.length = 4) (he4 : e4.length = 4) (hcs : csig.length = 64)
    (hfl : flags < 256)
    (hs : sh.stack = [dk ++ b4 ++ e4 ++ [m] ++ csig, sig]) (hr : sh.returned = false)
    (ht : lookupC C16.tsKey sh.cache = some (.atom (.int t))) (hthr : cfg.tsThreshold = some thr)
    (hsz : 105 ≤ cfg.lim.maxItemSize) (hroom : 6 ≤ cfg.lim.maxItems) :
    (∃ r, TSteps (instrTable H C cfg) cfg.lim (topFrame (delegateKeyLock root flags) count) sh r ∧
        Res.summary r = .ok [[0xff]]) ↔
      ((natOfBytesBE b4 : Int) ≤ t ∧ t < (natOfBytesBE e4 : Int) ∧ (thr ≤ 0 ∨ t - cfg.now < thr) ∧
        Sodium.verify H C root (dk ++ b4 ++ e4 ++ [m]) csig = true ∧
        SigPure.checkSig H C cfg.lim.maxItemSize sh.cache flags sig dk = .ok true) := by
  obtain ⟨r0, hr0, hsum⟩ := delegateKeyLock_run H C cfg hno root dk b4 e4 csig sig m flags [] sh count t thr
    hroot hdk hb4 he4 hcs hfl hs hr ht hthr hsz (by simpa using hroom)
  have hw := window_iff t cfg.now thr b4 e4
  unfold delegateSpec at hsum
  generalize hpre : dk ++ b4 ++ e4 ++ [m] = pre at *
  generalize hA : C16.tsAccept t cfg.now thr b4 = A at *
  generalize hE : C16.tsAccept t cfg.now thr e4 = E at *
  generalize hV : Sodium.verify H C root pre csig = V at *
  constructor
  · intro ⟨r, hrun, hok⟩
    have : r = r0 := TSteps.det hrun hr0
    subst this
    rw [hsum] at hok
    cases A with
    | false => simp only [↓reduceIte] at hok; cases hok
    | true =>
      cases E with
      | true => simp only [Bool.true_eq_false, ↓reduceIte] at hok; cases hok
      | false =>
        cases V with
        | false => simp only [Bool.true_eq_false, Bool.false_eq_true, ↓reduceIte] at hok; cases hok
        | true =>
          simp only [Bool.true_eq_false, Bool.false_eq_true, ↓reduceIte] at hok
          obtain ⟨h1, h2, h3⟩ := hw.mp ⟨rfl, rfl⟩
          refine ⟨h1, h2, h3, rfl, ?_⟩
          cases hc : SigPure.checkSig H C cfg.lim.maxItemSize sh.cache flags sig dk with
          | error e => rw [hc] at hok; cases hok
          | ok b =>
            rw [hc] at hok
            cases b with
            | true => rfl
            | false => simp [boolBytes] at hok
  · intro ⟨h1, h2, h3, hv, hc⟩
    obtain ⟨hab, hae⟩ := hw.mpr ⟨h1, h2, h3⟩
    refine ⟨r0, hr0, ?_⟩
    rw [hsum, hab, hae, hv, hc]
    simp [boolBytes]


/-- … stated for a `Certificate`: the lock accepts `[pack c, sig]` exactly when
    `c.begin ≤ t < c.end`, `t` is within the clock slack, `c` is signed by the root key over its
    preimage, and `sig` passes the C02 specification under `c.delegate`. -/
theorem delegateKeyLock_accepts_cert (cfg : Cfg) (hno : cfg.sigExts = []) (root sig : Bytes) (c : Certificate)
    (flags : Nat) (sh : Shared) (count : Nat) (t thr : Int)
    (hroot : root.length = 32) (hd : c.delegate.length = 32) (hb : c.beginTs < 2 ^ 32) (he : c.endTs < 2 ^ 32)
    (hcs : c.signature.length = 64) (hfl : flags < 256)
    (hs : sh.stack = [Certificate.pack c, sig]) (hr : sh.returned = false)
    (ht : lookupC C16.tsKey sh.cache = some (.atom (.int t))) (hthr : cfg.tsThreshold = some thr)
    (hsz : 105 ≤ cfg.lim.maxItemSize) (hroom : 6 ≤ cfg.lim.maxItems) :
    (∃ r, TSteps (instrTable H C cfg) cfg.lim (topFrame (delegateKeyLock root flags) count) sh r ∧
        Res.summary r = .ok [[0xff]]) ↔
      ((c.beginTs : Int) ≤ t ∧ t < (c.endTs : Int) ∧ (thr ≤ 0 ∨ t - cfg.now < thr) ∧
        Sodium.verify H C root (Certificate.preimage c) c.signature = true ∧
        SigPure.checkSig H C cfg.lim.maxItemSize sh.cache flags sig c.delegate = .ok true) := by
  have h256 : (256 : Nat) ^ 4 = 2 ^ 32 := by decide
  have hnb : natOfBytesBE (pad4 c.beginTs) = c.beginTs := by
    unfold pad4; rw [natOf_natTo, h256, Nat.mod_eq_of_lt hb]
  have hne : natOfBytesBE (pad4 c.endTs) = c.endTs := by
    unfold pad4; rw [natOf_natTo, h256, Nat.mod_eq_of_lt he]
  have := delegateKeyLock_accepts_iff H C cfg hno root c.delegate (pad4 c.beginTs) (pad4 c.endTs) c.signature sig
    (if c.may then 0xff else 0x00) flags sh count t thr hroot hd (natToBytesBE_length 4 _) (natToBytesBE_length 4 _) hcs hfl
    (by rw [hs]; rfl) hr ht hthr hsz hroom
  rw [hnb, hne] at this
  exact this

end TV.C14
