import Tapeverif.Lemmas.Codec
import Tapeverif.Model.Tools
/-! # C14 — delegation: certificate serialisation round-trips for every field value -/
namespace TV.C14

open Tools

/-- C14 (serialisation): for every certificate with a 32-byte delegate key, timestamps below
    2^32 (the builder admits `< 2^31`), any may-delegate flag and a 64-byte signature, unpacking
    the packed form returns exactly the certificate; the packed form is 105 bytes. -/
theorem cert_pack_unpack (c : Certificate) (hd : c.delegate.length = 32)
    (hb : c.beginTs < 2 ^ 32) (he : c.endTs < 2 ^ 32) (hs : c.signature.length = 64) :
    (Certificate.pack c).length = 105 ∧ Certificate.unpack (Certificate.pack c) = some c := by
  have hlen4 : ∀ n, (pad4 n).length = 4 := fun n => natToBytesBE_length 4 n
  have hpack : Certificate.pack c =
      c.delegate ++ (pad4 c.beginTs ++ (pad4 c.endTs ++ ([if c.may then 0xff else 0x00] ++ c.signature))) := by
    simp [Certificate.pack, Certificate.preimage, List.append_assoc]
  have hl : (Certificate.pack c).length = 105 := by
    rw [hpack]; simp [hd, hlen4, hs]
  refine ⟨hl, ?_⟩
  unfold Certificate.unpack
  rw [if_pos hl, hpack]
  have h256 : (256 : Nat) ^ 4 = 2 ^ 32 := by decide
  have t1 : (c.delegate ++ (pad4 c.beginTs ++ (pad4 c.endTs ++ ([if c.may then 0xff else 0x00] ++ c.signature)))).take 32 = c.delegate := by
    rw [← hd]; simp
  have d1 : (c.delegate ++ (pad4 c.beginTs ++ (pad4 c.endTs ++ ([if c.may then 0xff else 0x00] ++ c.signature)))).drop 32
      = pad4 c.beginTs ++ (pad4 c.endTs ++ ([if c.may then 0xff else 0x00] ++ c.signature)) := by
    rw [← hd]; simp
  have d2 : (c.delegate ++ (pad4 c.beginTs ++ (pad4 c.endTs ++ ([if c.may then 0xff else 0x00] ++ c.signature)))).drop 36
      = pad4 c.endTs ++ ([if c.may then 0xff else 0x00] ++ c.signature) := by
    rw [show 36 = 32 + 4 by rfl, ← List.drop_drop, d1]
    rw [← hlen4 c.beginTs]; simp
  have d3 : (c.delegate ++ (pad4 c.beginTs ++ (pad4 c.endTs ++ ([if c.may then 0xff else 0x00] ++ c.signature)))).drop 40
      = [if c.may then 0xff else 0x00] ++ c.signature := by
    rw [show 40 = 36 + 4 by rfl, ← List.drop_drop, d2]
    rw [← hlen4 c.endTs]; simp
  have d4 : (c.delegate ++ (pad4 c.beginTs ++ (pad4 c.endTs ++ ([if c.may then 0xff else 0x00] ++ c.signature)))).drop 41
      = c.signature := by
    rw [show 41 = 40 + 1 by rfl, ← List.drop_drop, d3]; simp
  rw [t1, d1, d2, d3, d4]
  have tb : (pad4 c.beginTs ++ (pad4 c.endTs ++ ([if c.may then 0xff else 0x00] ++ c.signature))).take 4 = pad4 c.beginTs := by
    rw [← hlen4 c.beginTs]; simp
  have te : (pad4 c.endTs ++ ([if c.may then 0xff else 0x00] ++ c.signature)).take 4 = pad4 c.endTs := by
    rw [← hlen4 c.endTs]; simp
  rw [tb, te]
  unfold pad4
  rw [natOf_natTo, natOf_natTo, h256, Nat.mod_eq_of_lt hb, Nat.mod_eq_of_lt he]
  cases c with
  | mk d b e m s =>
    cases m <;> simp

/-- the packed may-delegate byte is 0xff exactly for delegable certificates -/
theorem cert_may_byte (c : Certificate) (hd : c.delegate.length = 32) :
    (Certificate.preimage c)[40]? = some (if c.may then 0xff else 0x00) := by
  have hlen4 : ∀ n, (pad4 n).length = 4 := fun n => natToBytesBE_length 4 n
  unfold Certificate.preimage
  rw [List.getElem?_append_right (by simp [hd, hlen4])]
  simp [hd, hlen4]

/-- Non-vacuity -/
example : (Certificate.unpack (Certificate.pack ⟨List.replicate 32 7, 5, 2^31 - 1, true, List.replicate 64 9⟩)).map (·.endTs) = some (2^31 - 1) := by
  decide

end TV.C14
