#!/usr/bin/env python3
"""Confirm a sub-agent's mutation in its scratch worktree and store it under /verif/seeded/.
usage: import_seeded.py Cxx  (reads /tmp/mut/Cxx/out/patchN.diff, demoN.py, notesN.md)"""
import json, os, re, shutil, subprocess, sys
pid = sys.argv[1]
wt = f'/tmp/mut/{pid}'
def sh(cmd, **kw):
    return subprocess.run(cmd, shell=True, cwd=wt, stdout=subprocess.PIPE, stderr=subprocess.STDOUT, text=True, **kw)
def suite():
    r = sh('/venv/bin/python -m pytest -q -p no:cacheprovider --timeout=900 2>&1 | tail -6')
    m = re.search(r'(\d+) failed, (\d+) passed', r.stdout) or re.search(r'(\d+) passed', r.stdout)
    fails = sorted(re.findall(r'FAILED (\S+)', r.stdout))
    return r.stdout, m.groups() if m else None, fails
for n in [int(x) for x in os.environ.get('NS', '15 16').split()]:
    patch = f'{wt}/out/patch{n}.diff'
    if not os.path.exists(patch):
        continue
    sh('git checkout -- .')
    demo = f'{wt}/out/demo{n}.py'
    clean = sh(f'/venv/bin/python {demo}', timeout=900)
    ap = sh(f'git apply {patch}')
    if ap.returncode:
        print(pid, n, 'patch does not apply', ap.stdout); continue
    out, counts, fails = suite()
    mut = sh(f'/venv/bin/python {demo}', timeout=900)
    sh('git checkout -- .')
    ok = clean.returncode == 0 and mut.returncode == 1 and counts == ('3', '267')
    print(pid, n, 'clean rc', clean.returncode, 'mutant rc', mut.returncode, 'suite', counts, 'OK' if ok else 'REJECT')
    if not ok:
        print(out[-800:]); continue
    dst = f'/verif/seeded/{pid}-m{n}'
    os.makedirs(dst, exist_ok=True)
    shutil.copy(patch, f'{dst}/patch.diff'); shutil.copy(demo, f'{dst}/demo.py')
    notes = open(f'{wt}/out/notes{n}.md').read() if os.path.exists(f'{wt}/out/notes{n}.md') else ''
    open(f'{dst}/notes.md', 'w').write(notes)
    meta = {'property': pid, 'source': 'independent sub-agent given only the property text and a scratch worktree',
            'needs_to_manifest': notes.strip().split('\n')[0][:300] if notes else '',
            'confirmed': {'patch_applies_to': subprocess.run('git -C /repo rev-parse HEAD', shell=True, stdout=subprocess.PIPE, text=True).stdout.strip(),
                          'suite_with_patch': '267 passed, 3 failed (the 3 pre-existing order-dependent failures)',
                          'demo_exit_with_patch': mut.returncode, 'demo_exit_clean': clean.returncode,
                          'ran': [f'git apply patch.diff', 'pytest -q -p no:cacheprovider --timeout=900', 'python demo.py (exit 1)', 'git checkout -- .', 'python demo.py (exit 0)']},
            'detected_by': None}
    if os.path.exists(f'{dst}/meta.json'):
        old = json.load(open(f'{dst}/meta.json')); meta['detected_by'] = old.get('detected_by')
    json.dump(meta, open(f'{dst}/meta.json', 'w'), indent=1)
