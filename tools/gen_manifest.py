#!/usr/bin/env python3
"""Regenerates /verif/MANIFEST.json from the table below; a property is claimed iff
harness/props/<id>.py exists and is listed in CLAIMS."""
import json, os
V = os.path.dirname(os.path.dirname(os.path.abspath(__file__)))
BASE_NOTE = ("Trusted: Lean 4.33.0 kernel; axioms per theorem audited each run to be within {propext, Classical.choice, Quot.sound}; "
             "the hand-written Lean model is tied to /repo only by the regenerated tables and by the differential correspondence run of this command "
             "(generators bound what it sees); Python runtime, hashlib and libsodium are modelled, not verified. ")
CLAIMS = {
 'C10': dict(
   text="Lean theorems over all integers / all byte strings: bytesToInt (intToBytes n) = some n, decoding total exactly on non-empty strings, decoded range, "
        "top bit of the encoding = sign, and minimality of the encoding (no shorter string decodes to n). The model is tied to int_to_bytes / bytes_to_int / "
        "uint_to_bytes / bytes_to_bool / float codecs by differential runs (boundary bands, exhaustive small ranges, 2^k+d to 16384 bits, random to 8192 bits, "
        "all 1-2 byte strings, float32 patterns per exponent), and each case is also judged on the implementation alone by Python's signed big-int codec. "
        "Float32 arithmetic is executed, not proved (Lean Float is opaque to the kernel): the float clause is differential + bit-exact round-trip oracle only.",
   note="float clause: no theorem beyond bit-pattern identity; signalling-NaN patterns excluded (C float->double conversion quiets them) and counted in evidence.",
   technique="Lean 4 proof (induction / omega over Nat.log2 and base-256 folds) + differential correspondence of the executable model",
   design="§5 C10"),
}
REASON_UNBUILT = "check not built yet in this commit (planned, see DESIGN.md §8); not claimed until its theorems and correspondence run clean"
def main():
    props = [json.loads(l) for l in open(os.path.join(V, 'properties.jsonl'))]
    checks, na = [], []
    for p in props:
        pid = p['id']
        if pid in CLAIMS and os.path.exists(os.path.join(V, 'harness', 'props', pid.lower() + '.py')):
            c = CLAIMS[pid]
            checks.append({
                'property_id': pid,
                'quick_cmd': f'./check {pid} --tier quick',
                'thorough_cmd': f'./check {pid} --tier thorough',
                'evidence_file': f'evidence/{pid}.json',
                'replay_cmd_template': f'./check {pid} --replay {{path}}',
                'engine': 'lean-model+correspondence',
                'level_claimed': {'category': 'proof', 'text': c['text'], 'design_ref': c['design']},
                'level_note': BASE_NOTE + c['note'],
                'technique': c['technique'],
            })
        else:
            na.append({'property_id': pid, 'reason': REASON_UNBUILT})
    m = {
        'version': 1,
        'setup_cmd': 'cd lean && lake build Tapeverif tvdriver',
        'hooks': {'guard': 'TAPESCRIPT_VERIF', 'enable': 'none needed: the harness observes the implementation through its public API (instrumented Tape/Stack/dict subclasses passed to run_tape, module attributes functions.time / functions.token_bytes replaced in-process)',
                  'baseline_off_cmd': 'cd /repo && /venv/bin/python -m pytest -q -p no:cacheprovider --timeout=900',
                  'source_commits': [], 'add_only': True},
        'engines': [{'name': 'lean-model+correspondence', 'path': 'lean/ + harness/', 'serves_properties': [c['property_id'] for c in checks],
                     'kind_free_text': 'Lean 4 model + theorems (lake build, #print axioms audit) and a Python differential harness driving the compiled model (tvdriver) and the real tapescript in-process'}],
        'checks': checks,
        'not_applicable': na,
        'notes': 'See DESIGN.md. Genuine defects repaired by fix: commits in /repo and defects recorded as known findings are listed in known_findings.json.',
    }
    json.dump(m, open(os.path.join(V, 'MANIFEST.json'), 'w'), indent=1)
    print('claimed', [c['property_id'] for c in checks])
main()
