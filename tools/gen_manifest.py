#!/usr/bin/env python3
"""Regenerates /verif/MANIFEST.json from the table below; a property is claimed iff
harness/props/<id>.py exists and is listed in CLAIMS."""
import json, os
V = os.path.dirname(os.path.dirname(os.path.abspath(__file__)))
BASE_NOTE = ("Trusted: Lean 4.33.0 kernel; axioms per theorem audited each run to be within {propext, Classical.choice, Quot.sound}; "
             "the hand-written Lean model is tied to /repo only by the regenerated tables and by the differential correspondence run of this command "
             "(generators bound what it sees); Python runtime, hashlib and libsodium are modelled, not verified. ")
GENERIC = ("The theorems quantify over an ARBITRARY op table written in the model's primitive vocabulary (read/pop/push/cache/call/sub/tryCatch/loop ...), "
           "every script, cache, limit triple and fuel; they are proved by induction on the interpreter. ")
CLAIMS = {
 'C01': dict(
   text=GENERIC + "Proved: runAuth is true iff the whole list ran without error and the stack is exactly [ff]; an authorized list ran every script from its first byte in a fresh frame to the end of its tape; "
        "later scripts do not depend on an incoming RETURN flag; return hygiene - no instruction of any frame at any depth is ever fetched with a RETURN pending (ghost assertion in the interpreter shown unreachable). "
        "Tie: run_auth_scripts vs the model on adversarial witness x lock lists (verdict and final state), and on the implementation alone: hand-composed channel oracle through run_script/run_tape, "
        "the same ghost assertion installed on the real dispatch table, never-raises, python -O re-runs.",
   note="definition-dictionary aliasing and per-function call counters of the Python objects are modelled in a heap (validated differentially, not proved equivalent).",
   technique="Lean 4 proof (induction on fuel over a free-monad op DSL; ghost assertion unreachable) + differential correspondence + instrumented ghost assertion on the implementation",
   design="§5 C01"),
 'C06': dict(
   text="The Lean model of all 92 instructions + NOP codes, written instruction by instruction from the documented semantics, is the reference; control-flow scoping laws (IF/ELSE/TRY bodies transparent to RETURN, "
        "EVAL returns only to its caller, EXCEPT runs on the state the failure left, a RETURN never leaks past the construct it ended) are theorems of that reference for an arbitrary op table. "
        "Conformance of the implementation to the reference is decided by the differential run over the whole opcode table (deterministic per-opcode tour, clean and perturbed program streams, control-flow stream, "
        "all cache value types, plugins/contracts, limits), comparing success/error, stack, cache, returned flag, plugin log, random draws and call counter; a disagreement is shrunk and is the failing input.",
   note="conformance itself is differential testing against a reference with proved structural laws, not a theorem about the Python code; float arithmetic executed with Lean Float (opaque to the kernel); error messages not modelled, classes compared softly; cases that read an exception message are compared on success/error only.",
   technique="Lean 4 reference semantics with proved control-flow laws + differential correspondence over the full opcode table",
   design="§5 C06"),
 'C07': dict(
   text=GENERIC + "Proved: the stack invariant (<= max_items items, each <= max_item_size) holds on every outcome of every run, with the state at the point of failure for failed runs; push is all-or-nothing and a limit overrun is a ScriptExecutionError leaving the state untouched; "
        "reads past the end, calls/evaluations at the limit and loops past the iteration budget are ScriptExecutionErrors; a successful run consumed its whole tape. "
        "TERMINATION (Props/C07Term.lean, Lemmas/Term.lean, Lemmas/Counts.lean): for every op table, all limits, every script or script list and every cache the run ENDS - there is a fuel from which on the outcome is fixed and is not the out-of-fuel marker (tape_terminates, script_terminates, auth_terminates), by a lexicographic measure (call limit minus a lower bound of the call counter; length of the frame's tape at creation - block bodies are proper substrings; remaining tape; op-term structure; loop budget) together with partial-correctness invariants of the heap of call counters (counts_main: a run started at counter >= c never lowers a counter to c or below; function ids stay valid). So no loop, recursion or nesting runs forever in the model, and the fuel parameter is only a definitional device. "
        "Tie: instrumented runs of the real VM (recording deque/Stack/Tape, wrapped dispatch) are judged at every step against the limits and the primitive contracts the theorems rest on (no deque mutation bypassing put, no drops, no backward reads, "
        "CALL/EVAL nesting and LOOP iterations within the limit, limit errors are ScriptExecutionError), tracemalloc bound per instruction, plus the differential run on resource-hungry programs.",
   note="Python's recursion limit, C stack and real memory are runtime behaviour the model cannot exhibit (known finding K3 is demonstrated by replay); the termination theorem allows the run to end in the model's own substring-guard outcome (Err.guard, no counterpart in the implementation); that this outcome is unreachable for the 92 real instructions is not proved (the correspondence would show it as a disagreement).",
   technique="Lean 4 proof of limit invariants and of termination, generic over the op table + instrumented-trace oracle on the implementation + differential correspondence",
   design="§5 C07"),
 'C08': dict(
   text=GENERIC + "Proved: after any run (script or authorization list, successful or failed, state taken at the point of failure) every string-keyed cache entry is exactly what it was - none added, changed or removed; hence sigfields and timestamp are unchanged. "
        "Tie: a recording dict as the cache of the real VM logs every write/delete with its key as it happens, deep snapshots detect in-place mutation of values, run_script's returned cache is compared with its input, and the model's whole cache is compared with the implementation's on cache-writing programs with keys spelling the protected names.",
   note="the model keeps the RETURN flag in its own field; the code keeps it under the string key 'returned' (known finding K5), which the oracle allows for exactly that key.",
   technique="Lean 4 frame theorem generic over the op table + recording-dict oracle on the implementation + differential correspondence",
   design="§5 C08"),
 'C16': dict(
   text="Proved for every non-empty constraint of any length, every integer timestamp, clock and threshold, from any stack with room: OP_CHECK_TIMESTAMP pops c and pushes true exactly when t >= c and (thr <= 0 or t - now < thr) (c read unsigned); "
        "OP_CHECK_EPOCH exactly when c - now < thr; the empty constraint is an error; the value left by the before-lock is characterised exactly (t < ts OR the future-slack clause), which is the full statement of known finding K1, with the partial theorem (= t < ts when the slack clause is off) and a decide-checked K1 witness. Lock level (Props/C16Locks.lean, the builders' bytes executed symbolically): the after-lock leaves exactly the Boolean ts <= t and (thr <= 0 or t - now < thr) for every ts >= 0 (afterLock_run), its verify form passes exactly in that window and is an error otherwise (afterLockVerify_run), and the before-lock leaves a value that is true exactly for t < ts or t ahead of the clock by the threshold or more (beforeLock_run - K1 at lock level). "
        "Tie: exhaustive +-2 grid around every boundary x constraint encodings of 1-9 bytes x thresholds with a pinned fractional clock on the four instructions and the three lock builders (bytes compared with the model's builders), each grid point judged on the implementation alone by the documented formula.",
   note="the builders' bytes are tied differentially (BUILD lines); the between-lock (after-verify followed by before) is the composition of the two lock theorems, exercised on the grid but not stated as one theorem.",
   technique="Lean 4 proof by symbolic execution of the instruction's op term (omega on Int) + exhaustive boundary-grid oracle + differential correspondence",
   design="§5 C16"),
 'C20': dict(
   text="Proved: (table obligations, decide +kernel over the tables regenerated from /repo on this run) codes 0-91 are the assigned instructions in order, every code 92-255 is in the NOP table under the name NOP<code> and shares the one NOP function; "
        "the model dispatches every code >= 92 to NOP; NOP spec - one signed count byte, ScriptExecutionError if negative, otherwise removes exactly count items and changes nothing else; "
        "SOFT-FORK SAFETY for every op table, script list, cache, limits and fuel: installing at a NOP code any op that reads the count as NOP does, pops that many items, inspects them with an arbitrary predicate and may fail (failure not caught by TRY = uncatchable abort) "
        "never turns a rejected list into an authorized one - the runs are identical up to the first failure of the new op (lock-step simulation proved by induction over the interpreter). "
        "Tie: NOP codes x all 256 count bytes x stack depths on the implementation and the model; NOPn d<signed>/x<byte> compile+decompile round trip for every (code,count); fork implication measured in fresh interpreters with/without add_soft_fork for a family of fork ops at free codes, name/alias resolution and byte identity.",
   note="'not wrapped in a TRY block' is modelled as the fork op's failure being uncatchable; the registry side (add_opcode/add_soft_fork handlers) is exercised, not modelled.",
   technique="Lean 4 proof (simulation relation over the op DSL, decide +kernel table obligations) + exhaustive NOP grid + fresh-interpreter fork differential",
   design="§5 C20"),
 'C02': dict(
   text="Proved for arbitrary hash / curve parameters: the CHECK_SIG op term computes the pure specification SigPure.checkSig by symbolic execution (pops key and signature, then raises exactly the specification's error or pushes exactly its Boolean); "
        "the eight per-bit flag tests equal the mask test for all 256x256 (flag, allowed) pairs (kernel-evaluated whole table); a non-permitted flag bit is a ScriptExecutionError and a wrong key / signature length a ValueError - never true; "
        "otherwise the result is exactly verify(key, flag-selected message, sig[:64]); sign-then-check succeeds for every allowed flag under the completeness hypothesis of the scheme; caches agreeing on the covered fields give the same message (excluded fields irrelevant). "
        "Tie: CHECK_SIG / CHECK_SIG_VERIFY / SIGN / SIGN_STACK / CHECK_SIG_STACK / GET_MESSAGE scripts judged on the implementation alone by an independent reference (message from the property's sentence, PyNaCl verify), single-bit corruptions of key / signature / covered field, excluded-field changes, wrong lengths; model compared; the model's Ed25519 validated against libsodium each run.",
   note="'any change to a covered field / key / signature makes the check fail' is cryptographic soundness: exercised by corruption cases, not a theorem (would need message-binding / unforgeability idealisations); completeness of Ed25519 is a hypothesis of sign_then_check.",
   technique="Lean 4 proof (symbolic execution refinement of the op term to a pure spec, decide +kernel over the 65536-entry flag table) + reference-oracle differential",
   design="§5 C02"),
 'C03': dict(
   text="Proved: the OP_CHECK_MULTISIG op term of the VM model computes the pure specification SigPure.multisig - with the n keys on top of the m signatures it ends with exactly the specification's Boolean on the remaining stack or with exactly its error (checkMultisig_instruction, big-step, via refinement lemmas for its two loops and CHECK_SIG). About the specification (well-formed inputs): its verdict is the greedy matching verdict; SOUNDNESS unconditional - true implies the signatures are pairwise distinct and matched, in order, each to a different listed key under which it is valid (sub-multiset of the keys), so fewer than m distinct signers never pass; "
        "COMPLETENESS and ORDER INDEPENDENCE (any permutation of keys and of signatures) under the unique-signer hypothesis; an error is never true. "
        "Tie: the pure specification is compared with the implementation directly (MSPURE lines) and the VM op term through RUN lines; every case is judged on the implementation alone by brute-force injective matching with PyNaCl verify over listed signers / outsiders / duplicates / flag variants / malformed items in shuffled (thorough: all) orders; make_multisig_lock's quorum guard and bytes over bytes/VerifyKey key lists.",
   note="unique signer is a named hypothesis of completeness / order independence; checkMultisig_instruction assumes no signature-extension plugin and the stated stack-room / item-size side conditions.",
   technique="Lean 4 proof (op-term refinement to the pure spec; greedy matching soundness/completeness over List.Subperm, Mathlib) + brute-force matching oracle + differential correspondence of pure spec and op term",
   design="§5 C03"),
 'C09': dict(
   text="In the model the configuration is a read-only parameter closed over by the op table and the interpreter hands the same table and limits to every nested run (stated as equations); proved: SET_FLAG always errors and UNSET_FLAG is a no-op on every flag (the full statement of known finding K2); "
        "the signature-extension prelude logs each installed plugin exactly once, in order, and every signature-related instruction (GET_MESSAGE, CHECK_SIG(_VERIFY), CHECK_MULTISIG, SIGN, CHECK_TEMPLATE under flag 10) starts with exactly that prelude. "
        "Tie: the behavioural table 'nesting x configuration kind -> observable' is measured on the implementation: bounded-exhaustive nestings of the 10 constructs to depth 2 (quick) / 3 (thorough) around probes for every flag 0-10, thresholds, disallow_OP_EVAL, eval_return, plugins (exactly-once log), check_template plugins, contracts, item-size limit; nested observable must equal top-level observable (implementation alone), and model = implementation on every probe script.",
   note="uniformity for depth > 3 rests on the structural argument (configuration is not part of any state the interpreter threads), not on enumeration.",
   technique="Lean 4 proof (structural: configuration outside the threaded state; symbolic execution of flag instructions and plugin prelude) + bounded-exhaustive behavioural table on the implementation",
   design="§5 C09"),
 'C11': dict(
   text="Proved about the reference assembler (the documented encoding, shared with the disassembler model): the encoding of a program is the in-order concatenation of its instructions' encodings; decoding the encoding of well-formed instructions returns the same instructions (the bytecode determines the program, nothing dropped / duplicated / reordered); "
        "PUSH selects PUSH0 iff 1 byte, PUSH1 iff 2-255, PUSH2 iff 256-65535 and rejects the empty value and >= 65536 bytes, and what it emits decodes as that push of exactly the value; table obligations (decide +kernel over tables regenerated from /repo's get_args / parse_next on this run): every op's compiler operand class equals the model's layout, every alias resolves. "
        "Tie: abstract programs over the full instruction set (nesting <= 4, operand boundaries per kind) rendered in random combinations of all spelling variants (OP_/bare/every alias, case, brace vs END_, hoisted IF conditions, d/x/s prefixes, three comment styles, whitespace), variable sugar, multi-invocation macros, comptime ~ and ~! blocks must compile to the documented encoding, which the Lean decoder reads back as the same abstract program; unencodable sources must be rejected; all 256 values of every 1-byte operand exhaustively.",
   note="STATED LIMIT: the tokenizer / parser is not modelled in Lean - no theorem quantifies over source texts; that half is differential testing against a proved-consistent reference. String values are checked against the UTF-8 bytes written between the quotes; the tokenizer's alteration of them (whitespace runs collapse, upper-case S prefix / unquoted values are upper-cased) is known finding K8, probed on every run. `OP_<alias>` spellings directly inside DEF bodies are rejected by the compiler (an error, not a mis-assembly) and are not rendered.",
   technique="Lean 4 proof (encode/decode inverse over 12 operand layouts, decide +kernel table obligations) + differential testing of the concrete-syntax front end",
   design="§5 C11"),
 'C12': dict(
   text="Proved about the disassembler model: decoding one instruction leaves a proper suffix of the input (progress, never backwards), so the fuel = length recursion is total; for every byte string that decodes, re-encoding the decoded sequence reproduces the identical bytes and every decoded field fits its layout; "
        "table obligation (decide +kernel): every opcode's name and operand class measured on the implementation's decompiler on this run (bytes consumed on two probe patterns + line shape) equals the model's. "
        "Tie: decompile_script under a 4 s watchdog, a 3 GiB address-space cap and a recording Tape (negative / backward reads) on every byte string of length <= 2 and sampled (quick) / all (thorough) length-3 strings compared with the model's listing by per-block digests, random / opcode-biased / mutated strings to 70 KiB, PUSH2 sizes around 2^15 and 2^16; compile(decompile(b)) == b for compiled C11 programs, operand sizes on both sides of 2^7, 2^8, 2^15, 2^16, all lock / witness builder outputs.",
   note="the listing text itself (names, operand printing) is tied by comparison with the model's `listing`, not by a theorem; recompilation of the listing goes through the unmodelled parser. Known finding K9 (a DEF in the hoisted condition of an IF inside a DEF body compiles to bytes whose listing the compiler rejects) is probed on every run.",
   technique="Lean 4 proof (decoder progress and encode-after-decode identity, decide +kernel table obligations) + watchdog/recording-Tape oracle + exhaustive short-string digest comparison",
   design="§5 C12"),
 'C17': dict(
   text="Proved for any commutative group with base point of order dividing L: the adapter (R, sa = r + ca*x mod L) satisfies the adapter check sa*G = R + ca*X; decrypting with t gives (R+T, sa+t) satisfying the Ed25519 equation under the signer's key with the same challenge; t = s - sa (mod L) is recovered; "
        "the adapter itself (T != 0) and a decryption with any scalar whose point is not T are not signatures; bridge lemmas: the model's scalarAdd / scalarMul / derivePoint are exactly that mod-L arithmetic / (n mod 2^255)*B. "
        "Tie: the four adapter instructions and the builders (locks pub/prv, witness, decrypt, decrypt_adapter) on random and edge scalars, messages of 0-512 bytes, every input single-bit-corrupted, histories with several adapters in one cache, judged on the implementation alone by independent integer / PyNaCl arithmetic and Ed25519 verify, and compared with the model.",
   note="the link from the byte-level instruction terms to the group equations (clamping, encodings, challenge hashing) is exercised differentially, not proved; the PRIVATE construction is known finding K4; cryptographic statements ('fails if altered') are exercised, not theorems.",
   technique="Lean 4 proof (group algebra over an abstract AddCommGroup, Mathlib abel) + independent-arithmetic oracle + differential correspondence",
   design="§5 C17"),
 'C18': dict(
   text="Proved for any commutative group, base point G, L*G = 0, 0 < L: hop i's tweak point (running sum of points) is the point of the running sum of secrets; a party's view is consistent (Y_{i-1} + y_i*G = Y_i); the final key (sum of all secrets mod L) opens the last lock; release(k, y) = k - y mod L turns a key for Y_i into a key for Y_{i-1}; "
        "the whole right-to-left cascade from the final key yields, for every hop, a key opening exactly that hop's lock (induction over the released suffix). "
        "Tie: AMHL.setup / setup_for / check_setup / release / verify_lock_key and setup_amhl / make_adapter_witness / decrypt_adapter / release_left_amhl_lock for chains of 2-8 with and without refund keys, seeds incl. empty and None, repeated and interleaved setups in one process, scalars of other hops, all judged on the implementation alone by independent integer / PyNaCl arithmetic.",
   note="group-level only: encodings / clamping of the sampled secrets and the adapter byte offsets (witness[2:34]) are exercised, not proved.",
   technique="Lean 4 proof (group algebra, induction over the hop list, Mathlib) + independent-arithmetic oracle over setup histories",
   design="§5 C18"),
 'C19': dict(
   text="Proved for every history of add / remove / reset operations (induction over the history): the list-based registry state machine (append-unless-present, erase, clear - as the implementation after repair F7) never lists an entry twice and lists an entry exactly when the set specification says so (the last operation concerning it - an add / remove of it or a reset of its scope - is an add); "
        "operations on one scope leave the others unchanged; a run is a function of its arguments only (no hidden state, by type). "
        "Tie: the implementation is driven through bounded-exhaustive per-registry histories (length <= 4 quick / 5 thorough) and random mixed histories of length 6-40 over plugins (plain functions, bound methods that are a fresh equal object on each access, callables with __eq__), contracts, interfaces, aliases, probe runs and compile / assemble calls; after every step registry contents, what a probe run consults, compile / assemble results vs fresh-process baselines, and the caller's dicts are checked against the set specification.",
   note="Python object identity vs equality of plugin callables is exercised by the object kinds above, not modelled; the dict-backed registries are the same machine without reset.",
   technique="Lean 4 proof (refinement of a list-based registry to a history-defined set specification, induction over histories) + history-driven oracle on the implementation",
   design="§5 C19"),
 'C13': dict(
   text="Proved by byte-level symbolic execution of the builders' bytes on the VM model, for every key, allowed-flags byte, witness-left stack, cache, limits, call counter and (arbitrary) crypto parameters, no signature-extension plugin installed: "
        "(single signature, layout 1) the run ends with exactly the C02 verdict / error of (sig, pk) (singleSigLock_run, singleSigLock_accepts_iff); "
        "(layout 2, key committed by hash) an error unless the supplied key hashes to the committed hash, then exactly the C02 verdict under the supplied key (singleSigLock2_run); "
        "(m-of-n multisig) exactly the C03 specification SigPure.multisig of the witness's m signature items against the lock's keys (multisigLock_run, through checkMultisig_instruction) - so by C03 true only with pairwise distinct signatures matched to m different listed keys; "
        "(script hash) a script that does not hash to the committed hash ends the lock in an error before OP_EVAL, only the stack changed (scripthashLock_rejects); one that does is evaluated and the lock ends exactly as that script does (scripthashLock_accepts); (graftroot) the key path ends with exactly the C02 verdict under the lock's key (graftrootLock_keypath_run), and a surrogate whose 64-byte signature does not verify under the lock's key over the surrogate's bytes ends the lock in an error at the VERIFY before OP_EVAL - plugin log, random counter and function heap untouched, the surrogate is never evaluated (graftrootLock_surrogate_rejects). "
        "With C02.4 this gives completeness for every permitted flag and makes 'another key / other covered fields / non-permitted flag / different committed script' exactly the C02 / hash rejection conditions. "
        "Tie: bytes of the single-sig (both layouts), multisig, script-hash, graftroot and graftap lock builders vs the model's builders; verdicts of every witness kind against every lock kind (compatibility table), witnesses by another key, changed covered / excluded sigfields, non-permitted flags, different committed / surrogate scripts, foreign-signed surrogates, one key supplying two distinct signatures to a 2-of-3, holder + outsider - judged on the implementation alone; every list also run on the model. The accepting surrogate path (Props/C13Locks.lean, graftrootLock_surrogate_accepts): a surrogate whose 64-byte signature verifies under the lock's key is evaluated on the remaining stack, and the lock ends with exactly the surrogate script's own outcome - its final stack or its error.",
   note="per-lock theorems: single-sig (both layouts), multisig, script-hash, graftroot (key path; rejection of a foreign-signed surrogate). The accepting surrogate path of graftroot and the graftap lock (taproot of a graftroot script; OP_TAPROOT itself is covered by C05) are tied by builder-bytes comparison and verdict matrices, not by a per-lock theorem. Collision resistance of SHAKE-256 is not assumed: hash conditions are stated as digest equalities.",
   technique="Lean 4 proof (byte-level big-step symbolic execution of the locks on the VM model, refinement to the C02 / C03 pure specs) + verdict-matrix oracle + differential correspondence of builder bytes and runs",
   design="§5 C13"),
 'C14': dict(
   text="Proved by byte-level symbolic execution of make_delegate_key_lock on the VM model (27 instructions, big-step rules per instruction) for every root key, certificate fields, certificate signature, final signature, cache, timestamp, clock, slack threshold, limits and (arbitrary) crypto parameters, no signature-extension plugin: "
        "the run ends with exactly delegateSpec - an error unless t is accepted against begin, not accepted against end, and the certificate signature verifies under the root over (delegate || begin || end || may); then exactly the C02 verdict of the final signature under the delegate key (delegateKeyLock_run); "
        "hence the lock accepts [pack c, sig] iff c.begin <= t < c.end, t is not ahead of the clock by the slack or more, c is signed by the root key, and sig passes C02 under c.delegate (delegateKeyLock_accepts_iff / _accepts_cert, using C16.1 and window_iff). "
        "Chain lock, chains of EVERY length (Props/C14Locks.lean, induction on the certificate list through OP_DEF / OP_CALL, threading the function heap, the definition tables copied at each IF entry and the call counter): make_delegate_key_chain_lock(root, flags), run in the lock script's top frame on the stack cert_1 :: marker_1 :: ... :: cert_n :: marker_n :: sig :: st, ends with exactly chainSpec (chainLock_run / chainLock_run_top / chain_call) - the first certificate that is outside its window or not signed by the key authorizing it (the root for cert_1, the previous certificate's delegate key afterwards) ends the run in an error, otherwise the outcome is the C02 specification of sig under the last delegate key; so the lock leaves true iff every link passes and the final signature is C02-valid under the last delegate key (chainLock_accepts_iff, chainSpec_ok_iff). Resource hypotheses: n more calls fit under the call limit, five free stack slots, 105-byte items allowed. The levels themselves (the body of the recursive def 0, executed symbolically in *any* activation): a level ends in an error unless its certificate is inside its window and is signed by the level's authorizing key (chainLevel_run); with a false marker / non-delegable certificate it then ends with exactly the C02 verdict of the next item under the certificate's delegate key (chainLevel_final); with a delegable certificate and the witness's true marker it is exactly CALL 0 on the stack delegate :: rest - the next level, authorized by this certificate's delegate key (chainLevel_delegates). Serialisation: unpack(pack(c)) = c and |pack(c)| = 105 for every 32-byte delegate key, begin / end below 2^32, either may-delegate flag and every 64-byte signature (cert_pack_unpack, cert_may_byte). "
        "Tie and exactness on the implementation: Certificate.pack / unpack and the bytes of both lock builders vs the model's; the acceptance condition of both locks is judged on the implementation alone by an independent oracle "
        "(per-link signer, begin <= t < end, clock slack, may-delegate on every non-final link, final delegate signs the sigfields) over chains of length 1..6, all window boundaries (t = begin, end-1, end), all may-delegate patterns, every single-field corruption and cross-chain splices; every run is also executed on the model VM.",
   note="the chain theorem assumes the lock's own continue/stop decision pattern (markersOk: marker AND may-delegate byte true on every link but the last) - other patterns (a non-delegable certificate in the middle, a true marker at the end) make a level treat the next certificate as a signature or the signature as a certificate and are decided by the oracle + model correspondence; it also assumes its stated resource side conditions. The single-certificate theorem assumes the resource side conditions it states (105-byte items fit, 6 stack slots) and a 105-byte certificate; other lengths end in the SPLIT / CHECK_SIG_STACK errors exercised by the correspondence.",
   technique="Lean 4 proof (byte-level big-step symbolic execution of the lock on the VM model, refinement to the C02 pure spec and the C16 window theorem; serialisation round trip) + acceptance oracle on the implementation + differential correspondence of builder bytes and runs",
   design="§5 C14"),
 'C15': dict(
   text="Proved by byte-level symbolic execution of the HTLC locks (both layouts, SHA-256 and SHAKE-256) and the PTLC lock on the VM model, including the IF_ELSE construct and its inline body frames, for every preimage item, digest, receiver / refund key, signature, cache, timestamp, clock, slack threshold, deadline in [0, 2^62), limits and (arbitrary) crypto parameters, no signature-extension plugin: "
        "the run ends with exactly htlcSpec (htlcSha256Lock_run, htlcShake256Lock_run; the PTLC lock likewise ends with exactly armsSpec for its claim key - receiver, or receiver + T by ptlcLock_bytes - ptlcLock_run / armsSpec_accepts_iff), and htlcSpec is the verdict [ff] iff (the item hashes to the digest and the signature passes C02 under the receiver key - at any time) or (it does not, t >= deadline, t is not ahead of the clock by the slack or more, and the signature passes C02 under the refund key) (htlcSpec_accepts_iff, with deadline_readback + C16.1). "
        "A negative deadline reads back >= 2^(8 len - 1). Group level (any commutative group, L*G = 0): the PTLC witness scalar (x+t) mod L is the secret of the claim point X+T, of no claim point with another tweak point, and the receiver key alone does not open a tweaked lock. "
        "Tie and exactness: bytes of the six lock kinds and four witness kinds vs the model's builders; verdict grid (path x key x preimage x time at deadline-1 / deadline / deadline+1 / ahead of clock, preimage lengths 1..64, digest sizes, tweak scalars, sigfields, flags, all cross-pairings of witness kinds with lock kinds) judged on the implementation alone and executed on the model VM.",
   note="per-lock theorems cover all six lock kinds (htlc2Sha256Lock_run / htlc2Shake256Lock_run / htlc2Spec_accepts_iff for the second layout: additionally the supplied key must hash to the committed key hash). PTLC tweak scalars are clamped as make_ptlc_witness expects (an unreduced tweak scalar is outside the builder's contract). The theorems assume the resource side conditions they state (64-byte items fit, 4 stack slots).",
   technique="Lean 4 proof (byte-level big-step symbolic execution of the locks incl. IF_ELSE inline frames, refinement to the C02 pure spec and the C16 window theorem; codec read-back; abelian-group algebra) + verdict-grid oracle + differential correspondence of builder bytes and runs",
   design="§5 C15"),
 'C04': dict(
   text="Proved on the VM model (big-step symbolic execution, for every tree, path, stack, cache, limits and hash function with 32-byte digests): "
        "(binding) OP_MERKLEVAL on a (script, sibling) pair that does not hash to the root ends in ScriptExecutionError before its EVAL step - only the stack changes, so no instruction of the supplied script ran (merkleval_rejects); on a matching pair it is exactly OP_EVAL of that script (merkleval_accepts); "
        "(completeness, every shape and leaf) every level of every tree verifies whichever side the subtree is on (level_ok_left/right); the bytes of a leaf's unlocking script push exactly its proof (unlock_run); and from that stack OP_MERKLEVAL <root> ends exactly as the leaf script does when started on the remaining stack with the same cache / plugin log / random counter, the only scripts run on the way being the path's level scripts (tree_run, by induction on the path); "
        "(serialisation) unpack (pack t) = t for every tree whose packed children are shorter than 2^16 bytes (unpack_pack), hence same root and unlocking scripts. "
        "Tie and exactness on the implementation: all tree shapes to 8 leaves, prioritized / balanced builders to 24 leaves incl. filler leaves: root / lock / pack / unlocking scripts vs the model's Tree functions; each leaf's unlock + lock hands to run_tape exactly the path's level scripts and that leaf, writes only that leaf's marker and gives the leaf's own verdict; "
        "per-level corruptions (script bit, sibling bit, pair exchanged, levels exchanged, foreign leaf, foreign proof, uncommitted script): false, altered script never handed to run_tape, no marker; pack -> unpack keeps root and every unlocking script.",
   note="tree_run / unlock_run assume the resource side conditions they state (item sizes within stack_max_item_size, stack room for the proof, call budget >= path length, OP_EVAL not disallowed, non-empty leaf script); the shapes the two builders produce are compared with the implementation, not derived in Lean; collision resistance of SHA-256 is not assumed or proved - binding is stated relative to the digest equation.",
   technique="Lean 4 proof (big-step symbolic execution on the VM model over a fuel-monotone interpreter, induction over tree paths, pack/unpack inverse) + started-scripts oracle on the implementation + differential correspondence of tree functions and runs",
   design="§5 C04"),
 'C05': dict(
   text="Proved on the VM model by big-step symbolic execution of OP_TAPROOT for every root, key, script, stack, cache, limits and (arbitrary) hash / curve parameters: "
        "(script path) when clamp(sha256(key || sha256(script)))*G + key is not the root the instruction pushes 00 and continues without reaching its EVAL step - only the stack changes, so no instruction of the supplied script ran; an invalid key raises and nothing runs; "
        "when it is the root the instruction is exactly OP_EVAL of the script on the remaining stack; (key path) a non-32-byte item under the root makes it exactly OP_CHECK_SIG <allowed> with the root as public key, "
        "hence (no signature extension) exactly the C02 specification's verdict / error of that signature under the root. Lock level (the bytes push <root> taproot <flags> executed symbolically): the key path ends with exactly the C02 verdict of the witness's signature under the root (tapLock_keypath_run); a (script, key) pair that does not recompute to the root leaves 00 - verdict false - with the script never evaluated (tapLock_scriptpath_mismatch). Group level (any commutative group, L*G = 0): builder root P+X = instruction root X+P; the key-spend scalar (x+t) mod L is the root's secret; the untweaked scalar is not. "
        "Tie and exactness on the implementation: root bytes vs an independent pure-Python Ed25519; key path verdict == (flag permitted and signature valid under the root by that independent verifier) for honest / untweaked / other-key / other-script / bit-flipped / other-sigfield / non-permitted-flag witnesses; "
        "script path: runs exactly when the pair recomputes (script bit, other key, key = root, invalid point, root bit), observed by tapes handed to run_tape and a cache marker; all 256 allowed-flags bytes; native vs non-native on honest + adversarial (C01 family) witnesses at default and restricted limits; lock bytes and every run vs the model. Script path that matches, lock level (Props/C05Locks.lean, tapLock_scriptpath_match): a (script, key) pair that recomputes to the root makes the lock evaluate the script on the remaining stack and end with exactly the script's own outcome.",
   note="native vs non-native equivalence is decided by oracle + model correspondence (no theorem about the non-native lock's bytes); two recorded differences are known findings K6 (non-native needs 3 stack slots, a 64-byte item and one more call) and K7 (non-native redefines function 0), both replayed on every run.",
   technique="Lean 4 proof (big-step symbolic execution of OP_TAPROOT on the VM model, refinement of the key path to the C02 pure spec, abelian-group algebra) + independent-Ed25519 oracle + differential correspondence of builder bytes and runs",
   design="§5 C05"),
 'C10': dict(
   text="Lean theorems over all integers / all byte strings: bytesToInt (intToBytes n) = some n, decoding total exactly on non-empty strings, decoded range, "
        "top bit of the encoding = sign, and minimality of the encoding (no shorter string decodes to n); the integer instructions executed symbolically on the VM model (addInts_exact, subInts_exact, multInts_exact, divInts_exact / divInts_zero, modInts_exact, less_exact, leq_exact): for operand items decoding to any integers the result item is the minimal encoding of the exact unbounded result (floor division / remainder as Python's // and %, fdiv_fmod), which decodes back to it - the only resource hypothesis is that the result fits stack_max_item_size. The model is tied to int_to_bytes / bytes_to_int / "
        "uint_to_bytes / bytes_to_bool / float codecs by differential runs (boundary bands, exhaustive small ranges, 2^k+d to 16384 bits, random to 8192 bits, "
        "all 1-2 byte strings, float32 patterns per exponent), and each case is also judged on the implementation alone by Python's signed big-int codec. "
        "Float32 arithmetic is executed, not proved (Lean Float is opaque to the kernel): the float clause is differential + bit-exact round-trip oracle only.",
   note="float clause: no theorem beyond bit-pattern identity; signalling-NaN patterns excluded (C float->double conversion quiets them) and counted in evidence.",
   technique="Lean 4 proof (induction / omega over Nat.log2 and base-256 folds) + differential correspondence of the executable model",
   design="§5 C10"),
}
REASON_UNBUILT = "check not built yet in this commit (planned, see DESIGN.md §8); not claimed until its theorems and correspondence run clean"
def main():
    props = [json.loads(l) for l in open(os.path.join(V, 'properties.jsonl'))]
    checks, na = [], []
    for p in props:
        pid = p['id']
        if pid in CLAIMS and os.path.exists(os.path.join(V, 'harness', 'props', pid.lower() + '.py')):
            c = CLAIMS[pid]
            checks.append({
                'property_id': pid,
                'quick_cmd': f'./check {pid} --tier quick',
                'thorough_cmd': f'./check {pid} --tier thorough',
                'evidence_file': f'evidence/{pid}.json',
                'replay_cmd_template': f'./check {pid} --replay {{path}}',
                'engine': 'lean-model+correspondence',
                'level_claimed': {'category': 'proof', 'text': c['text'], 'design_ref': c['design']},
                'level_note': BASE_NOTE + c['note'],
                'technique': c['technique'],
            })
        else:
            na.append({'property_id': pid, 'reason': REASON_UNBUILT})
    m = {
        'version': 1,
        'setup_cmd': 'cd lean && lake build Tapeverif tvdriver',
        'hooks': {'guard': 'TAPESCRIPT_VERIF', 'enable': 'none needed: the harness observes the implementation through its public API (instrumented Tape/Stack/dict subclasses passed to run_tape, module attributes functions.time / functions.token_bytes replaced in-process)',
                  'baseline_off_cmd': 'cd /repo && /venv/bin/python -m pytest -q -p no:cacheprovider --timeout=900',
                  'source_commits': [], 'add_only': True},
        'engines': [{'name': 'lean-model+correspondence', 'path': 'lean/ + harness/', 'serves_properties': [c['property_id'] for c in checks],
                     'kind_free_text': 'Lean 4 model + theorems (lake build, #print axioms audit) and a Python differential harness driving the compiled model (tvdriver) and the real tapescript in-process'}],
        'checks': checks,
        'not_applicable': na,
        'notes': 'See DESIGN.md. Genuine defects repaired by fix: commits in /repo and defects recorded as known findings are listed in known_findings.json.',
    }
    json.dump(m, open(os.path.join(V, 'MANIFEST.json'), 'w'), indent=1)
    print('claimed', [c['property_id'] for c in checks])
main()
