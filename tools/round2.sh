#!/bin/bash
# usage: round2.sh Cxx ... : confirm + import the round-2 changes of each property, then run its quick check against each
cd /verif; mkdir -p .work
export NS="${NS:-15 16}"; RLOG=${RLOG:-.work/round8.txt}
for C in "$@"; do
  /venv/bin/python tools/import_seeded.py $C 2>&1 | grep -E "^$C " >> $RLOG
  for n in $NS; do
    d=seeded/$C-m$n
    [ -f $d/patch.diff ] || continue
    out=$(bash tools/try_mutant_wt.sh $d/patch.diff $C quick 2>&1)
    echo "$C-m$n $(echo "$out" | grep -o 'rc=[0-9]*' | tail -1) | $(echo "$out" | grep -m1 '^VIOLATION' | cut -c1-100) | $(echo "$out" | grep -E "^\[$C\] quick" | tail -1)" >> $RLOG
  done
done
