#!/bin/bash
# Re-run every seeded change against its property's quick check and record the outcome in
# seeded/<id>/meta.json (detected_by) and .work/matrix.txt. Each change is applied in a scratch worktree of /repo (REPO=<worktree>).
cd "$(dirname "$0")/.."
mkdir -p .work
[ -z "$START$ONLY" ] && : > .work/matrix.txt     # START=C07-m1 resumes an interrupted run
for d in seeded/C*-m*; do
  id=$(basename "$d"); pid=${id%%-*}
  [ -n "$START" ] && [[ "$id" < "$START" ]] && continue
  [ -n "$ONLY" ] && [[ ! "$id" =~ $ONLY ]] && continue     # ONLY='m[78]$' re-runs a subset
  out=$(bash tools/try_mutant_wt.sh "$d/patch.diff" "$pid" quick 2>&1)
  rc=$(echo "$out" | grep -o 'rc=[0-9]*' | tail -1)
  viol=$(echo "$out" | grep -m1 '^VIOLATION' )
  sumline=$(echo "$out" | grep -E "^\[$pid\] quick" | tail -1)
  echo "$id $rc | $viol | $sumline" >> .work/matrix.txt
  /venv/bin/python - "$d" "$pid" "$rc" "$viol" "$sumline" <<'PY'
import json, sys
d, pid, rc, viol, summ = sys.argv[1:6]
p = d + '/meta.json'
m = json.load(open(p))
if rc == 'rc=1' and viol:
    m['detected_by'] = {'check': pid, 'tier': 'quick', 'seed': 0,
                        'how': 'property violated on the implementation: failing input in the replay' if 'no-failing-input-found' not in viol else 'correspondence / proof obligation broken, no failing input found within the budget',
                        'summary': summ}
else:
    m['detected_by'] = None
    m['last_try'] = {'rc': rc, 'summary': summ}
json.dump(m, open(p, 'w'), indent=1)
PY
done
git -C /repo status --short | head -3
cat .work/matrix.txt
