#!/bin/bash
# usage: try_mutant_wt.sh <patch.diff> <Cxx> [tier]
# Runs a check against a scratch worktree of /repo with the patch applied (REPO=<worktree>), so
# that /repo itself is never touched (useful while other runs are reading /repo). The worktree
# is removed afterwards.
P=$(realpath "$1"); C=$2; T=${3:-quick}
W=/tmp/mutrun/$$
mkdir -p /tmp/mutrun
git -C /repo worktree add -q --detach "$W" HEAD || exit 9
trap 'git -C /repo worktree remove --force "$W" >/dev/null 2>&1' EXIT
git -C "$W" apply "$P" || { echo "patch does not apply"; exit 9; }
cd /verif
REPO="$W" timeout 1500 ./check "$C" --tier "$T" 2>&1 | tail -4
echo "rc=${PIPESTATUS[0]}"
