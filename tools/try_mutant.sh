#!/bin/bash
# usage: try_mutant.sh <seeded-dir> <Cxx> [tier]   -- apply to /repo, run the check, always revert
D=$1; P=$2; T=${3:-quick}
cd /verif
git -C /repo diff --quiet || { echo "/repo dirty"; exit 9; }
git -C /repo apply "$(realpath $D)/patch.diff" || exit 9
trap 'git -C /repo checkout -- .' EXIT
timeout 1500 ./check $P --tier $T 2>&1 | tail -4
echo "rc=${PIPESTATUS[0]}"
