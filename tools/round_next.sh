#!/bin/bash
# usage: round_next.sh Cxx ... : import the sub-agent's next-numbered change of each property (number = highest seeded + 1) and run its quick check
cd /verif
for C in "$@"; do
  n=$(ls -d seeded/$C-m* | sed 's/.*-m//' | sort -n | tail -1); n=$((n+1))
  NS="$n" RLOG=${RLOG:-.work/round12.txt} bash tools/round2.sh $C
done
